(* C05: completeness of the Blind BBS flow: commit -> blind_sign -> verify_blind_sign, and
   blind_proof_gen -> blind_proof_verify for every pair of disclosure choices. *)
From ZK Require Import Laws BaseLemmas ModelLemmas SignProofs Codec NoPanic ProofComplete UpdateProofs.
From Coq Require Import Sorting.Sorted.
Open Scope N_scope.

Section BC.
  Context (E : env) (LW : Laws E).
  Notation S := (SO E).
  Notation P := (PR E).
  Notation Fd := (F S).
  Notation G1t := (@G1 S P).
  Notation G2t := (@G2 S P).
  Notation c := (cs E).

  Local Notation "0" := (f0 S).
  Local Notation "1" := (f1 S).
  Local Infix "+" := (fadd S).
  Local Infix "*" := (fmul S).
  Local Infix "-" := (fsub S).
  Local Notation "- x" := (fopp S x).
  Local Notation d1 := (dl1 E LW).
  Local Notation d2 := (dl2 E LW).

  Add Field Ffbc : (Fth E LW).

  (* ---------------------------------------------------------------- (a) the commitment's Schnorr proof *)
  Lemma sub_all {A} (l : list A) n : n = length l -> sub l 0 n = l.
  Proof. intros ->. apply sub_full. lia. Qed.

  Lemma sub_1_skipn {A} (l : list A) n : n = length l -> sub l 1 n = skipn 1 l.
  Proof.
    intros ->. unfold sub. apply firstn_all2. rewrite skipn_length. lia.
  Qed.

  Theorem core_commit_complete bg cms api rho :
    length bg = (length cms + 1)%nat -> length rho = (length cms + 2)%nat ->
    (length (api ++ c_h2s c) <= 255)%nat ->
    exists x,
      core_commit E bg cms api rho = Ok (x, nth 0 rho 0) /\
      length (z_m_cap E (cm_proof E x)) = length cms /\
      d1 (cm_C E x) = nth 0 rho 0 * d1 (nth 0 bg (g1_zero P)) + dot E LW (skipn 1 bg) cms /\
      core_commit_verify E (cm_C E x) (cm_proof E x) bg api = Ok tt.
  Proof.
    intros Hbg Hrho Hdst. unfold core_commit.
    rewrite Hbg, Nat.eqb_refl. cbn [negb].
    destruct bg as [|Q2 Js]; [cbn in Hbg; lia|]. cbn [length] in Hbg. cbn [index nth_error unwrap bind].
    rewrite slice_ok by (cbn [length]; lia). cbn [bind].
    rewrite Hrho, Nat.eqb_refl. cbn [negb].
    rewrite !(nth_rho E) by lia. cbn [bind].
    rewrite slice_ok by lia. cbn [bind].
    assert (HJ : sub (Q2 :: Js) 1 (length cms + 1) = Js).
    { rewrite sub_1_skipn by (cbn [length]; cbn in Hbg; lia). reflexivity. }
    rewrite HJ.
    unfold calculate_blind_challenge at 1. cbn [length Nat.eqb].
    rewrite (hash_to_scalar_ok E) by assumption. cbn [bind].
    set (spb := nth 0 rho 0). set (st := nth 1 rho 0).
    set (mt := sub rho 2 (length cms + 2)).
    assert (Hmt : length mt = length cms) by (unfold mt; rewrite sub_length; lia).
    match goal with |- context [f_of_okm S ?x] => set (ch := f_of_okm S x) end.
    eexists. split; [reflexivity|]. cbn [cm_C cm_proof z_m_cap z_s_cap z_chal].
    assert (Hmc : length (map (fun p => fst p + snd p * ch) (combine mt cms)) = length cms).
    { rewrite map_length, combine_length, Hmt. lia. }
    split; [exact Hmc|]. split.
    { rewrite (dl_msm E LW), (L_dl1_mul E LW). cbn [nth skipn]. reflexivity. }
    unfold core_commit_verify. cbn [z_m_cap z_s_cap z_chal]. rewrite Hmc.
    unfold get_range. cbn [length] in *.
    replace (Nat.leb 0 (length cms + 1) && Nat.leb (length cms + 1) (Datatypes.S (length Js)))%bool with true
      by (symmetry; apply andb_true_iff; split; apply Nat.leb_le; lia).
    cbn [try_opt bind]. rewrite sub_all by (cbn [length]; lia).
    cbn [index nth_error unwrap bind]. rewrite slice_from_ok by (cbn [length]; lia). cbn [bind skipn].
    match goal with |- context [calculate_blind_challenge E ?C ?Cb _ api] => set (Cbv := Cb) end.
    assert (HCb : Cbv = msm_acc E (g1_mul P st Q2) Js mt).
    { unfold Cbv. apply (L_dl1_inj E LW).
      rewrite (L_dl1_add E LW), !(dl_msm E LW), !(L_dl1_mul E LW), (dl_msm E LW), (L_dl1_mul E LW).
      rewrite dot_combine_add by assumption. ring. }
    rewrite HCb. unfold calculate_blind_challenge. cbn [length Nat.eqb].
    rewrite (hash_to_scalar_ok E) by assumption. cbn [bind]. fold ch.
    rewrite (feqb_refl E LW). reflexivity.
  Qed.

  (* the blind generators used everywhere: create(n, "BLIND_" || api_id_blind) *)
  Definition bgens (n : nat) : list G1t := create_generators E n (blind_prefix ++ c_api_id_blind c).
  Definition sgens (n : nat) : list G1t := create_generators E n (c_api_id_blind c).
  Definition hmb (m : bytes) : Fd := f_of_okm S (expand E m (c_api_id_blind c ++ c_map_msg_scalar c) 48).

  Lemma gens_create_eq n api p1 : g1_dec P (c_p1 c) = Some p1 ->
    gens_create E n api = Ok {| g_p1 := p1; g_values := create_generators E n api |}.
  Proof. intros H. unfold gens_create. rewrite H. reflexivity. Qed.

  (* commit, then the signer-side validation over ANY blind-generator set that extends the prover's *)
  Theorem commit_valid cmsgs rho p1 extra :
    suite_ok E -> g1_dec P (c_p1 c) = Some p1 ->
    let cm := option_default [] cmsgs in
    length rho = (length cm + 2)%nat ->
    exists x,
      commit E cmsgs rho = Ok (x, nth 0 rho 0) /\
      length (commitment_to_bytes E x) = (112 + 32 * length cm)%nat /\
      d1 (cm_C E x) = nth 0 rho 0 * d1 (nth 0 (bgens (length cm + 1)) (g1_zero P)) +
                      dot E LW (skipn 1 (bgens (length cm + 1))) (map hmb cm) /\
      deserialize_and_validate_commit E (Some (commitment_to_bytes E x))
        {| g_p1 := p1; g_values := bgens (length cm + 1 + extra) |} (Some (c_api_id_blind c)) = Ok (cm_C E x).
  Proof.
    intros [[_ [_ [_ [Hm [Hh _]]]]] _] Hp1 cm Hrho.
    unfold commit. fold cm.
    rewrite (messages_to_scalars_ok E) by assumption. cbn [bind]. fold hmb.
    rewrite map_length. rewrite (gens_create_eq _ _ _ Hp1). cbn [bind g_values].
    destruct (core_commit_complete (bgens (length cm + 1)) (map hmb cm) (c_api_id_blind c) rho)
      as [x [Hc [Hl [Hd Hv]]]]; rewrite ?map_length; try assumption.
    { unfold bgens. apply create_generators_length. }
    rewrite map_length in Hl.
    exists x. split; [exact Hc|]. split.
    { destruct (commitment_codec_roundtrip E LW x) as [_ Hlen]. rewrite Hlen, Hl. reflexivity. }
    split; [exact Hd|].
    unfold deserialize_and_validate_commit. cbn [option_default].
    destruct (commitment_codec_roundtrip E LW x) as [Hrt Hlen].
    destruct (Nat.eqb_spec (length (commitment_to_bytes E x)) 0); [lia|].
    rewrite Hrt. cbn [bind g_values]. rewrite Hl.
    unfold bgens at 1. rewrite create_generators_length.
    destruct (Nat.ltb_spec (length cm + 1 + extra) (length cm + 1)); [lia|].
    (* the verifier only looks at the first M + 1 blind generators: prefix independence *)
    assert (Hpre : core_commit_verify E (cm_C E x) (cm_proof E x) (bgens (length cm + 1 + extra)) (c_api_id_blind c) = Ok tt).
    { unfold core_commit_verify in *. rewrite Hl in *.
      assert (Hg : get_range (bgens (length cm + 1 + extra)) 0 (length cm + 1) =
                   get_range (bgens (length cm + 1)) 0 (length cm + 1)).
      { unfold get_range, bgens. rewrite !create_generators_length.
        replace (Nat.leb (length cm + 1) (length cm + 1 + extra)) with true by (symmetry; apply Nat.leb_le; lia).
        rewrite Nat.leb_refl. replace (Nat.leb 0 (length cm + 1)) with true by (symmetry; apply Nat.leb_le; lia).
        cbn [andb]. f_equal. unfold sub. cbn [skipn]. rewrite Nat.sub_0_r.
        rewrite (create_prefix E (length cm + 1 + extra) (length cm + 1)) by lia.
        symmetry. apply firstn_all2. rewrite create_generators_length. lia. }
      rewrite Hg. exact Hv. }
    rewrite Hpre. reflexivity.
  Qed.

  (* ---------------------------------------------------------------- (b) blind_sign -> verify_blind_sign *)
  Lemma dot_app (H1 H2 : list G1t) (m1 m2 : list Fd) : length H1 = length m1 ->
    dot E LW (H1 ++ H2) (m1 ++ m2) = dot E LW H1 m1 + dot E LW H2 m2.
  Proof.
    revert m1. induction H1 as [|h H1 IH]; intros [|m m1] Hl; cbn in Hl; try discriminate; cbn.
    - ring.
    - rewrite IH by lia. ring.
  Qed.

  (* whoever holds sk and computes A = B/(sk+e) for the B the verifier recomputes has a valid signature *)
  Lemma core_verify_of_B sk e B (g : generators E) ms header api Q1 HH dom :
    g_values E g = Q1 :: HH -> length HH = length ms ->
    calculate_domain E (sk_to_pk E sk) Q1 HH header api = Ok dom ->
    d1 B = d1 (g_p1 E g) + dom * d1 Q1 + dot E LW HH ms ->
    sk + e <> 0 ->
    core_verify E (sk_to_pk E sk) {| sig_A := g1_mul P (finv S (sk + e)) B; sig_e := e |} ms g header api = Ok tt.
  Proof.
    intros Hg Hl Hdom HB Hnz. unfold core_verify. rewrite Hg. cbn [length skipn index nth_error unwrap bind].
    rewrite Hl. replace (Datatypes.S (length ms)) with (length ms + 1)%nat by lia. rewrite Nat.eqb_refl. cbn [negb].
    rewrite Hdom. cbn [bind sig_A sig_e].
    match goal with |- (if ?c then _ else _) = _ => assert (Hc : c = true); [|rewrite Hc; reflexivity] end.
    apply (L_pair E LW). unfold sk_to_pk.
    rewrite (L_dl1_mul E LW), (L_dl2_add E LW), !(L_dl2_gen E LW).
    unfold compute_B. rewrite (dl_msm E LW), (L_dl1_add E LW), (L_dl1_mul E LW). rewrite HB. field. assumption.
  Qed.

  Lemma create_generators_cons n api : exists Q Hs, create_generators E (Datatypes.S n) api = Q :: Hs /\ length Hs = n.
  Proof.
    pose proof (create_generators_length E (Datatypes.S n) api) as Hl.
    destruct (create_generators E (Datatypes.S n) api) as [|Q Hs]; [cbn in Hl; lia|].
    exists Q, Hs. split; [reflexivity|]. cbn in Hl. lia.
  Qed.

  Lemma bgens_prefix n k : (k <= n)%nat -> firstn k (bgens n) = bgens k.
  Proof. intros H. unfold bgens. apply create_prefix. exact H. Qed.

  (* the committed-message generators the signer hashes into the domain (`get(1..len-1)` of M+2 blind
     generators) are exactly the verifier's J_1..J_M (tail of M+1 blind generators) *)
  Lemma signer_Js M : sub (bgens (M + 2)) 1 (M + 1) = skipn 1 (bgens (M + 1)).
  Proof.
    rewrite <- (bgens_prefix (M + 2) (M + 1)) by lia.
    unfold sub. rewrite skipn_firstn_comm. reflexivity.
  Qed.

  Theorem blind_sign_verify_complete sk cmsgs rho header msgs p1 x s :
    suite_ok E -> g1_dec P (c_p1 c) = Some p1 ->
    let cm := option_default [] cmsgs in
    length rho = (length cm + 2)%nat ->
    commit E cmsgs rho = Ok (x, nth 0 rho 0) ->
    blind_sign E sk (sk_to_pk E sk) (Some (commitment_to_bytes E x)) header msgs = Ok s ->
    verify_blind_sign E s (sk_to_pk E sk) header msgs cmsgs (Some (nth 0 rho 0)) = Ok tt.
  Proof.
    intros Hs Hp1 cm Hrho Hcommit Hbs.
    destruct (commit_valid cmsgs rho p1 1 Hs Hp1 Hrho) as [x' [Hc' [Hlen [HdC Hdvc]]]]. fold cm in Hlen, HdC, Hdvc.
    rewrite Hcommit in Hc'. inversion Hc'; subst x'; clear Hc'.
    pose proof Hs as [[_ [_ [_ [Hm [Hh _]]]]] _].
    set (ml := option_default [] msgs) in *.
    (* ---- the signer *)
    unfold blind_sign in Hbs. cbn [option_default] in Hbs. fold ml in Hbs.
    unfold len in Hbs. rewrite Hlen in Hbs.
    destruct (N.eqb_spec (N.of_nat (112 + 32 * length cm)) 0); [lia|].
    unfold checked_sub in Hbs.
    destruct (N.leb_spec 48 (N.of_nat (112 + 32 * length cm))); [|lia]. cbn [try_opt bind] in Hbs.
    destruct (N.leb_spec 32 (N.of_nat (112 + 32 * length cm) - 48)); [|lia]. cbn [try_opt bind] in Hbs.
    replace (N.to_nat ((N.of_nat (112 + 32 * length cm) - 48 - 32) / 32) + 1)%nat with (length cm + 1 + 1)%nat in Hbs.
    2:{ replace (N.of_nat (112 + 32 * length cm) - 48 - 32)%N with (N.mul 32 (N.of_nat (length cm + 1)%nat)) by lia.
        rewrite N.mul_comm, N.div_mul by lia. lia. }
    rewrite !(gens_create_eq _ _ _ Hp1) in Hbs. cbn [bind] in Hbs.
    fold (sgens (length ml + 1)) in Hbs. fold (bgens (length cm + 1 + 1)) in Hbs.
    match type of Hbs with bind ?X _ = _ => replace X with (@Ok G1t (cm_C E x)) in Hbs by (symmetry; exact Hdvc) end.
    cbn [bind] in Hbs.
    rewrite (messages_to_scalars_ok E) in Hbs by assumption. cbn [bind] in Hbs. fold hmb in Hbs.
    unfold calculate_b in Hbs. cbn [g_values g_p1] in Hbs.
    unfold sgens at 1 in Hbs. rewrite create_generators_length, map_length, Nat.eqb_refl in Hbs. cbn [negb] in Hbs.
    replace (length ml + 1)%nat with (Datatypes.S (length ml)) in * by lia.
    destruct (create_generators_cons (length ml) (c_api_id_blind c)) as [Q1 [HH [EQ HHl]]].
    fold (sgens (Datatypes.S (length ml))) in EQ. rewrite EQ in Hbs.
    cbn [index nth_error unwrap bind skipn] in Hbs.
    destruct (g1_eqb P _ (g1_zero P)) eqn:EB0; [discriminate|]. cbn [bind] in Hbs.
    unfold finalize_blind_sign in Hbs. cbn [g_values g_p1] in Hbs. try rewrite EQ in Hbs.
    cbn [index nth_error unwrap bind] in Hbs.
    replace (length cm + 1 + 1)%nat with (Datatypes.S (length cm + 1)) in Hbs by lia.
    destruct (create_generators_cons (length cm + 1) (blind_prefix ++ c_api_id_blind c)) as [Q2 [JJ [EJ JJl]]].
    fold (bgens (Datatypes.S (length cm + 1))) in EJ.
    assert (HJs : sub (bgens (Datatypes.S (length cm + 1))) 1 (length cm + 1) = skipn 1 (bgens (length cm + 1))).
    { replace (Datatypes.S (length cm + 1)) with (length cm + 2)%nat by lia. apply signer_Js. }
    assert (HQ2 : bgens (length cm + 1) = Q2 :: skipn 1 (bgens (length cm + 1))).
    { rewrite <- (bgens_prefix (Datatypes.S (length cm + 1)) (length cm + 1)) by lia. rewrite EJ.
      replace (length cm + 1)%nat with (Datatypes.S (length cm)) by lia. cbn [firstn skipn]. reflexivity. }
    rewrite EJ in Hbs. cbn [index nth_error unwrap bind] in Hbs.
    rewrite slice_from_ok in Hbs by (cbn [length]; lia). cbn [bind skipn] in Hbs.
    unfold usub, len in Hbs. cbn [length] in Hbs.
    destruct (N.leb_spec 1 (N.of_nat (Datatypes.S (length JJ)))); [|lia]. cbn [bind] in Hbs.
    replace (N.to_nat (N.of_nat (Datatypes.S (length JJ)) - 1)) with (length cm + 1)%nat in Hbs by lia.
    unfold get_range in Hbs. cbn [length] in Hbs.
    replace (Nat.leb 1 (length cm + 1) && Nat.leb (length cm + 1) (Datatypes.S (length JJ)))%bool with true in Hbs
      by (symmetry; apply andb_true_iff; split; apply Nat.leb_le; lia).
    cbn [option_default] in Hbs. rewrite <- EJ, HJs in Hbs.
    set (Js := skipn 1 (bgens (length cm + 1))) in *.
    destruct (calculate_domain E (sk_to_pk E sk) Q1 (HH ++ [Q2] ++ Js) header (c_api_id_blind c)) as [dom| | |] eqn:Edom;
      cbn [bind] in Hbs; try discriminate.
    rewrite (hash_to_scalar_ok E) in Hbs by assumption. cbn [bind] in Hbs.
    match type of Hbs with context [f_of_okm S ?z] => set (e := f_of_okm S z) in * end.
    destruct (finv_opt E (sk + e)) as [inv|] eqn:Einv; cbn [try_opt bind] in Hbs; [|discriminate].
    apply (finv_opt_some E LW) in Einv as [Hnz ->].
    inversion Hbs; subst s; clear Hbs.
    (* ---- the verifier *)
    unfold verify_blind_sign. cbn [option_default]. fold ml cm.
    unfold prepare_parameters. cbn [option_default].
    rewrite !(messages_to_scalars_ok E) by assumption. cbn [bind]. fold hmb.
    rewrite !(gens_create_eq _ _ _ Hp1). cbn [bind g_values g_p1].
    replace (length ml + 1)%nat with (Datatypes.S (length ml)) by lia.
    fold (sgens (Datatypes.S (length ml))). fold (bgens (length cm + 1)). rewrite EQ, HQ2. fold Js.
    eapply core_verify_of_B with (Q1 := Q1) (HH := HH ++ Q2 :: Js) (dom := dom).
    - reflexivity.
    - rewrite !app_length. cbn [length]. rewrite ?map_length, ?app_length. cbn [length]. rewrite ?map_length.
      unfold Js. rewrite skipn_length. unfold bgens. rewrite create_generators_length. lia.
    - exact Edom.
    - cbn [g_p1].
      rewrite (L_dl1_add E LW), (L_dl1_add E LW), (dl_msm E LW), (L_dl1_mul E LW), HdC.
      rewrite dot_app by (rewrite map_length; lia).
      cbn [app dot]. rewrite HQ2. cbn [nth]. ring.
    - exact Hnz.
  Qed.

  (* a blind signature issued without any commitment verifies (blinding factor 0, no committed messages) *)
  Theorem blind_sign_no_commit_complete sk header msgs p1 s cwp :
    suite_ok E -> g1_dec P (c_p1 c) = Some p1 ->
    option_default [] cwp = [] ->
    blind_sign E sk (sk_to_pk E sk) cwp header msgs = Ok s ->
    verify_blind_sign E s (sk_to_pk E sk) header msgs None None = Ok tt.
  Proof.
    intros Hs Hp1 Hcwp Hbs.
    pose proof Hs as [[_ [_ [_ [Hm [Hh _]]]]] _].
    set (ml := option_default [] msgs) in *.
    unfold blind_sign in Hbs. rewrite Hcwp in Hbs. fold ml in Hbs.
    cbn [len length N.of_nat N.eqb bind N.to_nat Nat.add] in Hbs.
    rewrite !(gens_create_eq _ _ _ Hp1) in Hbs. cbn [bind] in Hbs.
    unfold deserialize_and_validate_commit in Hbs. cbn [option_default length Nat.eqb bind] in Hbs.
    rewrite (messages_to_scalars_ok E) in Hbs by assumption. cbn [bind] in Hbs. fold hmb in Hbs.
    unfold calculate_b in Hbs. cbn [g_values g_p1] in Hbs.
    rewrite create_generators_length, map_length, Nat.eqb_refl in Hbs. cbn [negb] in Hbs.
    replace (length ml + 1)%nat with (Datatypes.S (length ml)) in * by lia.
    destruct (create_generators_cons (length ml) (c_api_id_blind c)) as [Q1 [HH [EQ HHl]]].
    rewrite EQ in Hbs. cbn [index nth_error unwrap bind skipn] in Hbs.
    destruct (g1_eqb P _ (g1_zero P)) eqn:EB0; [discriminate|]. cbn [bind] in Hbs.
    unfold finalize_blind_sign in Hbs. cbn [g_values g_p1] in Hbs.
    cbn [index nth_error unwrap bind] in Hbs.
    destruct (create_generators_cons 0 (blind_prefix ++ c_api_id_blind c)) as [Q2 [JJ [EJ JJl]]].
    destruct JJ; [|cbn in JJl; lia].
    rewrite EJ in Hbs. cbn [index nth_error unwrap bind] in Hbs.
    rewrite slice_from_ok in Hbs by (cbn [length]; lia). cbn [bind skipn] in Hbs.
    cbn [usub len length N.of_nat Pos.of_succ_nat N.leb N.compare Pos.compare Pos.compare_cont N.sub Pos.sub bind] in Hbs.
    cbn in Hbs.
    destruct (calculate_domain E (sk_to_pk E sk) Q1 (HH ++ [Q2]) header (c_api_id_blind c)) as [dom| | |] eqn:Edom;
      cbn [bind] in Hbs; try discriminate.
    rewrite (hash_to_scalar_ok E) in Hbs by assumption. cbn [bind] in Hbs.
    match type of Hbs with context [f_of_okm S ?z] => set (e := f_of_okm S z) in * end.
    destruct (finv_opt E (sk + e)) as [inv|] eqn:Einv; cbn [try_opt bind] in Hbs; [|discriminate].
    apply (finv_opt_some E LW) in Einv as [Hnz ->].
    inversion Hbs; subst s; clear Hbs.
    unfold verify_blind_sign. cbn [option_default]. fold ml.
    unfold prepare_parameters. cbn [option_default].
    rewrite !(messages_to_scalars_ok E) by assumption. cbn [bind map length]. fold hmb.
    rewrite !(gens_create_eq _ _ _ Hp1). cbn [bind g_values g_p1].
    replace (length ml + 1)%nat with (Datatypes.S (length ml)) by lia.
    cbn [Nat.add]. rewrite EQ, EJ.
    eapply core_verify_of_B with (Q1 := Q1) (HH := HH ++ [Q2]) (dom := dom).
    - reflexivity.
    - rewrite !app_length. cbn [length]. rewrite map_length. lia.
    - exact Edom.
    - cbn [g_p1].
      rewrite (L_dl1_add E LW), (L_dl1_add E LW), (dl_msm E LW), (L_dl1_mul E LW), (L_dl1_zero E LW).
      rewrite dot_app by (rewrite map_length; lia). cbn [app dot]. ring.
    - exact Hnz.
  Qed.

  (* ---------------------------------------------------------------- (c) blind proofs *)
  Lemma nthF_app_l (a b : list Fd) i : (N.to_nat i < length a)%nat -> nthF E (a ++ b) i = nthF E a i.
  Proof. intros H. unfold nthF. apply app_nth1. exact H. Qed.
  Lemma nthF_app_r (a b : list Fd) i : (length a <= N.to_nat i)%nat ->
    nthF E (a ++ b) i = nth (N.to_nat i - length a) b 0.
  Proof. intros H. unfold nthF. apply app_nth2. lia. Qed.

  Lemma map_hmb_pick (l : list bytes) D : (forall i, In i D -> (N.to_nat i < length l)%nat) ->
    map hmb (pick l D) = map (nthF E (map hmb l)) D.
  Proof.
    intros H. unfold pick. rewrite map_map. apply map_ext_in. intros i Hi. unfold nthF.
    rewrite (nth_indep _ 0 (hmb [])) by (rewrite map_length; apply H; exact Hi).
    symmetry. apply map_nth.
  Qed.

  Theorem blind_proof_complete pk sigb s header ph msgs cmsgs idx cidx spb rho p1 :
    suite_ok E -> g1_dec P (c_p1 c) = Some p1 ->
    sig_from_bytes E sigb = Ok s ->
    verify_blind_sign E s pk header msgs cmsgs spb = Ok tt ->
    let ml := option_default [] msgs in
    let cm := option_default [] cmsgs in
    let ix := option_default [] idx in
    let cx := option_default [] cidx in
    let D := sort_dedup ix in
    let Dc := sort_dedup cx in
    (forall i, In i ix -> N.lt i (N.of_nat (length ml))) -> (length ix <= length ml)%nat ->
    (forall j, In j cx -> N.lt j (N.of_nat (length cm))) -> (length cx <= length cm)%nat ->
    N.le (N.of_nat (length ml + length cm + 2)) usize_max ->
    length rho = (5 + (length ml + 1 + length cm - (length D + length Dc)))%nat ->
    nth 0 rho 0 <> 0 -> nth 1 rho 0 <> 0 -> d2 pk <> 0 -> d2 pk + sig_e E s <> 0 ->
    exists p,
      blind_proof_gen E pk sigb header ph msgs cmsgs idx cidx spb rho = Ok p /\
      blind_proof_verify E p pk header ph (Some (N.of_nat (length ml))) (Some (pick ml D)) (Some (pick cm Dc))
                         (Some D) (Some Dc) = Ok tt /\
      length (pok_to_bytes E p) = (272 + 32 * (length ml + 1 + length cm - (length D + length Dc)))%nat.
  Proof.
    intros Hs Hp1 Hsig Hv ml cm ix cx D Dc Hix Hixl Hcx Hcxl Hfit Hrho Hr1 Hr2 Hpk Hske.
    pose proof Hs as [[_ [_ [_ [Hm [Hh _]]]]] _].
    set (L := length ml) in *. set (M := length cm) in *.
    set (bf := option_default 0 spb) in *.
    (* the verifier's view of the blind signature *)
    unfold verify_blind_sign in Hv. cbn [option_default] in Hv. fold ml cm bf L M in Hv.
    unfold prepare_parameters in Hv. cbn [option_default] in Hv.
    rewrite !(messages_to_scalars_ok E) in Hv by assumption. cbn [bind] in Hv. fold hmb in Hv.
    rewrite !(gens_create_eq _ _ _ Hp1) in Hv. cbn [bind g_values g_p1] in Hv.
    fold (sgens (L + 1)) (bgens (M + 1)) in Hv.
    set (allms := map hmb ml ++ [bf] ++ map hmb cm) in *.
    set (g := {| g_p1 := p1; g_values := sgens (L + 1) ++ bgens (M + 1) |}) in *.
    assert (Hallen : length allms = (L + 1 + M)%nat).
    { unfold allms. rewrite !app_length, !map_length. cbn [length]. fold L M. lia. }
    assert (HA : sig_A E s <> g1_zero P) by (apply (sig_from_bytes_nz E LW _ _ Hsig)).
    set (allidx := ix ++ map (shiftN L) cx).
    assert (Hall : forall i, In i allidx -> N.lt i (N.of_nat (length allms))).
    { intros i Hi. rewrite Hallen. unfold allidx in Hi. apply in_app_iff in Hi as [Hi|Hi].
      - specialize (Hix i Hi). fold L in Hix. lia.
      - apply in_map_iff in Hi as [j [<- Hj]]. specialize (Hcx j Hj). fold M in Hcx. unfold shiftN. lia. }
    assert (Hsd : sort_dedup allidx = D ++ map (shiftN L) Dc).
    { unfold allidx. apply sort_dedup_blind_indexes. intros x Hx. apply Hix. exact Hx. }
    assert (HDl : forall i, In i D -> N.lt i (N.of_nat L)).
    { intros i Hi. apply Hix. apply (proj1 (sort_dedup_In _ _)). exact Hi. }
    assert (HDcl : forall j, In j Dc -> N.lt j (N.of_nat M)).
    { intros j Hj. apply Hcx. apply (proj1 (sort_dedup_In _ _)). exact Hj. }
    assert (HDlen : (length D <= L)%nat).
    { pose proof (remaining_length L D (strictly_sorted_NoDup _ (sort_dedup_sorted _)) HDl). lia. }
    assert (HDclen : (length Dc <= M)%nat).
    { pose proof (remaining_length M Dc (strictly_sorted_NoDup _ (sort_dedup_sorted _)) HDcl). lia. }
    destruct (core_proof_complete E LW pk s g allms allidx header ph (c_api_id_blind c) rho)
      as [p [Hgen [Hlen [Hpts Hver]]]]; try assumption.
    { rewrite Hsd, app_length, map_length, Hallen. exact Hrho. }
    rewrite Hsd in Hlen, Hver. rewrite app_length, map_length, Hallen in Hlen.
    exists p. split; [|split].
    - unfold blind_proof_gen. rewrite Hsig. cbn [bind option_default]. fold ml cm ix cx L M bf.
      destruct (Nat.ltb_spec L (length ix)); [lia|].
      replace (existsb (fun i => N.leb (N.of_nat L) i) ix) with false
        by (symmetry; apply existsb_ge_false; exact Hix).
      destruct (Nat.ltb_spec M (length cx)); [lia|].
      replace (existsb (fun i => N.leb (N.of_nat M) i) cx) with false
        by (symmetry; apply existsb_ge_false; exact Hcx).
      unfold prepare_parameters. cbn [option_default].
      rewrite !(messages_to_scalars_ok E) by assumption. cbn [bind]. fold hmb.
      rewrite !(gens_create_eq _ _ _ Hp1). cbn [bind g_values g_p1].
      fold (sgens (L + 1)) (bgens (M + 1)). fold allms. fold g.
      exact Hgen.
    - unfold blind_proof_verify. cbn [option_default]. fold D Dc.
      assert (HDD : sort_dedup D = D) by apply sort_dedup_idem.
      assert (HDcDc : sort_dedup Dc = Dc) by apply sort_dedup_idem.
      rewrite HDD, HDcDc.
      unfold len. rewrite Hlen. unfold checked_sub.
      destruct (N.leb_spec 1 (N.add (N.add (N.of_nat (length D)) (N.of_nat (length Dc)))
                                  (N.of_nat (L + 1 + M - (length D + length Dc))))); [|lia].
      cbn [try_opt bind].
      destruct (N.leb_spec (N.of_nat L) (N.sub (N.add (N.add (N.of_nat (length D)) (N.of_nat (length Dc)))
                                  (N.of_nat (L + 1 + M - (length D + length Dc)))) 1)); [|lia].
      cbn [try_opt bind].
      replace (N.sub (N.sub (N.add (N.add (N.of_nat (length D)) (N.of_nat (length Dc)))
                                  (N.of_nat (L + 1 + M - (length D + length Dc)))) 1) (N.of_nat L)) with (N.of_nat M) by lia.
      replace (existsb (fun j => N.leb (N.of_nat M) j) Dc) with false
        by (symmetry; apply existsb_ge_false; exact HDcl).
      unfold uadd. destruct (N.leb_spec (N.add (N.of_nat L) 1) usize_max); [|lia]. cbn [bind].
      destruct (N.leb_spec (N.add (N.of_nat M) 1) usize_max); [|lia]. cbn [bind].
      replace (N.to_nat (N.add (N.of_nat L) 1)) with (L + 1)%nat by lia.
      replace (N.to_nat (N.add (N.of_nat M) 1)) with (M + 1)%nat by lia.
      unfold prepare_parameters. cbn [option_default].
      rewrite !(messages_to_scalars_ok E) by assumption. cbn [bind app]. fold hmb.
      rewrite !(gens_create_eq _ _ _ Hp1). cbn [bind g_values g_p1].
      fold (sgens (L + 1)) (bgens (M + 1)). fold g.
      change (fun j : N => let* a := uadd j (N.of_nat L) in uadd a 1)
        with (fun j : N => let* a := uadd j (N.of_nat L) in uadd a 1).
      assert (Hsh : mapM (fun j : N => let* a := (if N.leb (N.add j (N.of_nat L)) usize_max then Ok (N.add j (N.of_nat L)) else Panic) in
                                        if N.leb (N.add a 1) usize_max then Ok (N.add a 1) else Panic) Dc = Ok (map (shiftN L) Dc)).
      { apply (mapM_uadd_shift L Dc). intros j Hj. specialize (HDcl j Hj). lia. }
      rewrite Hsh. cbn [bind].
      replace (map hmb (pick ml D) ++ map hmb (pick cm Dc))
        with (map (nthF E allms) (D ++ map (shiftN L) Dc)); [exact Hver|].
      rewrite map_app. f_equal.
      + rewrite map_hmb_pick by (intros i Hi; specialize (HDl i Hi); fold L; lia).
        apply map_ext_in. intros i Hi. unfold allms. apply nthF_app_l. rewrite map_length. specialize (HDl i Hi). fold L. lia.
      + rewrite map_hmb_pick by (intros i Hi; specialize (HDcl i Hi); fold M; lia).
        rewrite map_map. apply map_ext_in. intros j Hj. specialize (HDcl j Hj). unfold allms.
        rewrite nthF_app_r by (rewrite map_length; fold L; unfold shiftN; lia).
        rewrite map_length. fold L. unfold shiftN.
        replace (N.to_nat (j + N.of_nat L + 1)%N - L)%nat with (Datatypes.S (N.to_nat j)) by lia.
        cbn [app nth]. reflexivity.
    - rewrite (pok_to_bytes_length E LW). rewrite Hlen. reflexivity.
  Qed.

End BC.
