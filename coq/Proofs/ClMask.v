(* C19: the blinding lengths requested in src/cl03/sigma_protocols.rs (regenerated into Generated/ClConsts.v on every
   run) are the model's, and each is large enough for mask_ok. *)
From ZK Require Import Cl ClArith ClConsts.
From Coq Require Import ZArith Lia.
Open Scope Z_scope.

(* the source's random_bits arguments, in source order, are the model's (a source edit of any length breaks this) *)
Theorem requests_tied : forall CS, sigma_random_bits_requests CS = model_random_bits_requests CS.
Proof. intros CS. reflexivity. Qed.

Theorem mask_tied : sigma_mask = MASK.
Proof. reflexivity. Qed.

(* finite table: the three shipped suites and the harness's toy suite *)
Theorem suites_masked :
  masks_enough cl1024_suite && masks_enough cl2048_suite && masks_enough cl3072_suite && masks_enough toy_suite = true.
Proof. vm_compute. reflexivity. Qed.

(* the model's two-secret protocol requests exactly entries 3 and 4 of the table (the other protocols likewise:
   enforced on every run by the draw-request correspondence) *)
Theorem nisp2sec_requests CS m c g h n :
  nisp2sec_gen CS m c g h n =
  (let+ r1 := random_bits (nth 3 (model_random_bits_requests CS) 0) in
   let+ r2 := random_bits (nth 4 (model_random_bits_requests CS) 0) in
   let+ a := lift (pow_mod g r1 n) in
   let+ b := lift (pow_mod h r2 n) in
   let t := Z.rem (a * b) n in
   let ch := hash_int (str_cat [g; h; c_value c; t]) in
   mret {| ns_t := t; ns_s1 := r1 + ch * m; ns_s2 := r2 + ch * c_rand c |}).
Proof. reflexivity. Qed.

(* every response of the two-secret protocol masks its secret: for a draw of the requested length, a challenge below
   2^256 (SHA-256) and any secret, floor(s/c) stays 2^64 away from the secret *)
Theorem nisp2sec_responses_masked CS r c x : 321 <= ln CS + MASK ->
  2 ^ (ln CS + MASK - 1) <= r -> 0 < c < 2 ^ 256 -> 2 ^ 64 <= (r + c * x) / c - x.
Proof. intros Hk Hr Hc. eapply mask_ok; eassumption. Qed.

(* C16 (F11): the upper bound on D_1 that the larger-interval prover accepts is, in the source, the same expression as the
   verifier's and the model's li_upper (regenerated on every run) *)
Theorem li_bounds_tied : li_bounds_agree = true.
Proof. reflexivity. Qed.
