(* C04 / C06 / C07: structural and algebraic facts about the verifiers and the blinding.
   - degenerate proofs (identity among Abar, Bbar, D) are rejected by the verifier itself (C04, F1);
   - the signer never signs unless the commitment proof verified (C06, gating);
   - the witness holder's recomputation of the blindings returns exactly the draws; reusing the draws under two
     challenges reveals the exponent and the hidden messages (C07). *)
From ZK Require Import Laws BaseLemmas ModelLemmas SignProofs Codec NoPanic ProofComplete.
Open Scope N_scope.

Section Snd.
  Context (E : env) (LW : Laws E).
  Notation S := (SO E).
  Notation P := (PR E).
  Notation Fd := (F S).
  Notation G1t := (@G1 S P).
  Notation G2t := (@G2 S P).
  Notation c := (cs E).

  Local Notation "0" := (f0 S).
  Local Notation "1" := (f1 S).
  Local Infix "+" := (fadd S).
  Local Infix "*" := (fmul S).
  Local Infix "-" := (fsub S).
  Local Infix "/" := (fdiv S).
  Local Notation "- x" := (fopp S x).
  Local Notation d1 := (dl1 E LW).
  Local Notation d2 := (dl2 E LW).

  Add Field Ffsnd : (Fth E LW).

  (* ---------------------------------------------------------------- C04: degenerate elements *)
  Theorem core_proof_verify_degenerate pk p g header ph dm di api :
    p_Abar E p = g1_zero P \/ p_Bbar E p = g1_zero P \/ p_D E p = g1_zero P ->
    core_proof_verify E pk p g header ph dm di api = Err.
  Proof.
    intros H. unfold core_proof_verify, proof_verify_init.
    assert (Hz : (g1_eqb P (p_Abar E p) (g1_zero P) || g1_eqb P (p_Bbar E p) (g1_zero P) ||
                  g1_eqb P (p_D E p) (g1_zero P))%bool = true).
    { destruct H as [H|[H|H]]; rewrite H, (g1_eqb_refl E LW); rewrite ?orb_true_r; reflexivity. }
    rewrite Hz. reflexivity.
  Qed.

  Theorem proof_verify_degenerate p pk dmsgs idx header ph :
    suite_ok E ->
    p_Abar E p = g1_zero P \/ p_Bbar E p = g1_zero P \/ p_D E p = g1_zero P ->
    proof_verify E p pk dmsgs idx header ph = Err.
  Proof.
    intros [[Hm _] [p1 Hp1]] H. unfold proof_verify.
    rewrite (messages_to_scalars_ok E) by assumption. cbn [bind].
    unfold gens_create. rewrite Hp1. cbn [unwrap bind].
    apply core_proof_verify_degenerate. exact H.
  Qed.

  (* an accepted proof is accepted because its challenge is the hash of the recomputed commitments and the
     pairing equation holds: the two facts every soundness argument starts from *)
  Theorem core_proof_verify_accepts pk p g header ph dm di api :
    core_proof_verify E pk p g header ph dm di api = Ok tt ->
    exists ir, proof_verify_init E pk p g header dm di api = Ok ir /\
      proof_challenge_calculate E ir di dm ph api = Ok (p_chal E p) /\
      d1 (p_Abar E p) * d2 pk = d1 (p_Bbar E p) /\
      p_Abar E p <> g1_zero P /\ p_Bbar E p <> g1_zero P /\ p_D E p <> g1_zero P.
  Proof.
    unfold core_proof_verify.
    destruct (proof_verify_init E pk p g header dm di api) as [ir| | |] eqn:Ei; cbn [bind]; try discriminate.
    destruct (proof_challenge_calculate E ir di dm ph api) as [ch| | |] eqn:Ec; cbn [bind]; try discriminate.
    destruct (feqb S (p_chal E p) ch) eqn:Eq; cbn [negb]; [|discriminate].
    destruct (pairing_eq P _ _ _ _) eqn:Ep; [|discriminate]. intros _.
    apply (feqb_true E LW) in Eq. subst ch.
    exists ir. split; [reflexivity|]. split; [exact Ec|]. split.
    - apply (L_pair E LW) in Ep. rewrite (L_dl2_gen E LW) in Ep. rewrite Ep. ring.
    - unfold proof_verify_init in Ei.
      destruct (g1_eqb P (p_Abar E p) (g1_zero P)) eqn:E1; [discriminate|].
      destruct (g1_eqb P (p_Bbar E p) (g1_zero P)) eqn:E2; [discriminate|].
      destruct (g1_eqb P (p_D E p) (g1_zero P)) eqn:E3; [discriminate|].
      repeat split; apply (g1_eqb_false E LW); assumption.
  Qed.

  (* ---------------------------------------------------------------- C06: gating *)
  Theorem dvc_gated cwp bg api C :
    deserialize_and_validate_commit E cwp bg api = Ok C ->
    option_default [] cwp = [] /\ C = g1_zero P \/
    exists x, commitment_from_bytes E (option_default [] cwp) = Ok x /\ C = cm_C E x /\
              core_commit_verify E (cm_C E x) (cm_proof E x) (g_values E bg) (option_default [] api) = Ok tt.
  Proof.
    unfold deserialize_and_validate_commit.
    destruct (Nat.eqb_spec (length (option_default [] cwp)) 0) as [Hl|Hl].
    - intros H; inversion H. left. split; [|reflexivity]. destruct (option_default [] cwp); [reflexivity|discriminate].
    - destruct (commitment_from_bytes E (option_default [] cwp)) as [x| | |]; cbn [bind]; try discriminate.
      destruct (Nat.ltb _ _); [discriminate|].
      destruct (core_commit_verify E (cm_C E x) (cm_proof E x) (g_values E bg) (option_default [] api)) as [[]| | |] eqn:Ev;
        cbn [bind]; try discriminate.
      intros H; inversion H; subst. right. exists x. auto.
  Qed.

  (* the signer never issues a blind signature unless the commitment is absent or its proof of correctness
     verified against the blind generators of this ciphersuite *)
  Theorem blind_sign_gated sk pk cwp header msgs s :
    blind_sign E sk pk cwp header msgs = Ok s ->
    option_default [] cwp = [] \/
    exists x bg, commitment_from_bytes E (option_default [] cwp) = Ok x /\
      (exists n, gens_create E n (blind_prefix ++ c_api_id_blind c) = Ok bg) /\
      core_commit_verify E (cm_C E x) (cm_proof E x) (g_values E bg) (c_api_id_blind c) = Ok tt.
  Proof.
    unfold blind_sign. intros H.
    apply bind_ok in H as [M [_ H]].
    apply bind_ok in H as [g [_ H]].
    apply bind_ok in H as [bg [Hbg H]].
    apply bind_ok in H as [C [HC _]].
    apply dvc_gated in HC as [[Hn _]|[x [Hx [_ Hv]]]]; cbn [option_default] in *.
    - left. exact Hn.
    - right. exists x, bg. split; [exact Hx|]. split; [eauto|exact Hv].
  Qed.

  (* an accepted commitment proof has the challenge = hash of the recomputed Cbar *)
  Theorem core_commit_verify_accepts C z bgs api :
    core_commit_verify E C z bgs api = Ok tt ->
    exists bg G2_ Js, get_range bgs 0 (length (z_m_cap E z) + 1) = Some bg /\ bg = G2_ :: Js /\
      calculate_blind_challenge E C
        (g1_add P (msm_acc E (g1_mul P (z_s_cap E z) G2_) Js (z_m_cap E z)) (g1_mul P (fopp S (z_chal E z)) C))
        bg api = Ok (z_chal E z).
  Proof.
    unfold core_commit_verify.
    destruct (get_range bgs 0 (length (z_m_cap E z) + 1)) as [bg|] eqn:Eg; cbn [try_opt bind]; [|discriminate].
    destruct bg as [|G2_ Js]; cbn [index nth_error unwrap bind]; [discriminate|].
    rewrite slice_from_ok by (cbn [length]; lia). cbn [bind skipn].
    destruct (calculate_blind_challenge E C _ _ api) as [cv| | |] eqn:Ec; cbn [bind]; try discriminate.
    destruct (feqb S cv (z_chal E z)) eqn:Eq; cbn [negb]; [|discriminate]. intros _.
    apply (feqb_true E LW) in Eq. subst cv. exists (G2_ :: Js), G2_, Js. auto.
  Qed.

  (* ---------------------------------------------------------------- C07: blinding *)
  (* map2-style recomputation: m^_j - m_j * c *)
  Definition unblind (ch : Fd) (caps ms : list Fd) : list Fd :=
    map (fun p => fst p - snd p * ch) (combine caps ms).

  Lemma unblind_blind ch (mt um : list Fd) : length mt = length um ->
    unblind ch (map (fun p => fst p + snd p * ch) (combine mt um)) um = mt.
  Proof.
    revert um. induction mt as [|a mt IH]; intros [|b um] Hl; cbn in Hl; try discriminate; [reflexivity|].
    unfold unblind in *. cbn. rewrite IH by lia. f_equal. ring.
  Qed.

  (* the party who knows the witness (e, r1, r2 and the hidden messages) recomputes exactly the draws: distinct /
     non-zero recomputed blindings ARE distinct / non-zero draws *)
  Theorem blinding_recompute ir ch e rho um p :
    proof_finalize E ir ch e rho um = Ok p -> length rho = (5 + length um)%nat ->
    p_e_cap E p - e * ch = nth 2 rho 0 /\
    p_r1_cap E p + nth 0 rho 0 * ch = nth 3 rho 0 /\
    p_r3_cap E p + finv S (nth 1 rho 0) * ch = nth 4 rho 0 /\
    unblind ch (p_m_cap E p) um = sub rho 5 (5 + length um) /\
    p_chal E p = ch.
  Proof.
    intros H Hl. unfold proof_finalize in H.
    rewrite !(nth_rho E) in H by lia. cbn [bind] in H.
    rewrite slice_ok in H by lia. cbn [bind] in H.
    destruct (finv_opt E (nth 1 rho 0)) as [r3|] eqn:Er3; cbn [try_opt bind] in H; [|discriminate].
    apply (finv_opt_some E LW) in Er3 as [Hnz ->].
    inversion H; subst; clear H. cbn [p_e_cap p_r1_cap p_r3_cap p_m_cap p_chal].
    repeat split; try ring.
    apply unblind_blind. rewrite sub_length; lia.
  Qed.

  Theorem commit_blinding_recompute bg cms api rho x spb :
    core_commit E bg cms api rho = Ok (x, spb) ->
    let z := cm_proof E x in
    spb = nth 0 rho 0 /\
    z_s_cap E z - spb * z_chal E z = nth 1 rho 0 /\
    unblind (z_chal E z) (z_m_cap E z) cms = sub rho 2 (length cms + 2).
  Proof.
    unfold core_commit.
    destruct (negb (Nat.eqb (length bg) (length cms + 1))); [discriminate|].
    destruct (index bg 0) as [Q2| | |]; cbn [bind]; try discriminate.
    destruct (slice bg 1 (length cms + 1)) as [Js| | |]; cbn [bind]; try discriminate.
    destruct (negb (Nat.eqb (length rho) (length cms + 2))) eqn:Hl; [discriminate|].
    apply negb_false_iff, Nat.eqb_eq in Hl.
    rewrite !(nth_rho E) by lia. cbn [bind].
    rewrite slice_ok by lia. cbn [bind].
    destruct (calculate_blind_challenge E _ _ bg api) as [ch| | |]; cbn [bind]; try discriminate.
    intros H; inversion H; subst; clear H. cbn [cm_proof z_s_cap z_chal z_m_cap].
    repeat split; try ring.
    apply unblind_blind. rewrite sub_length; lia.
  Qed.

  (* why reuse is fatal: the same draws under two different challenges reveal the exponent and every hidden
     message scalar by the standard division *)
  Theorem reuse_extracts_e ir ir' ch ch' e rho um p p' :
    proof_finalize E ir ch e rho um = Ok p -> proof_finalize E ir' ch' e rho um = Ok p' ->
    length rho = (5 + length um)%nat -> ch <> ch' ->
    e = (p_e_cap E p - p_e_cap E p') / (ch - ch').
  Proof.
    intros H H' Hl Hne.
    destruct (blinding_recompute _ _ _ _ _ _ H Hl) as [He _].
    destruct (blinding_recompute _ _ _ _ _ _ H' Hl) as [He' _].
    assert (Hd : ch - ch' <> 0).
    { intros C0. apply Hne. transitivity (ch - ch' + ch'); [ring|]. rewrite C0. ring. }
    assert (Hx : p_e_cap E p - p_e_cap E p' = e * (ch - ch')).
    { transitivity ((p_e_cap E p - e * ch) - (p_e_cap E p' - e * ch') + e * (ch - ch')); [ring|].
      rewrite He, He'. ring. }
    rewrite Hx. field. exact Hd.
  Qed.

  Lemma unblind_nth ch caps ms j : (j < length caps)%nat -> (j < length ms)%nat ->
    nth j (unblind ch caps ms) 0 = nth j caps 0 - nth j ms 0 * ch.
  Proof.
    revert ms j. induction caps as [|a caps IH]; intros [|b ms] [|j] H1 H2; cbn in *; try lia; [reflexivity|].
    apply IH; lia.
  Qed.

  Theorem reuse_extracts_message ir ir' ch ch' e rho um p p' j :
    proof_finalize E ir ch e rho um = Ok p -> proof_finalize E ir' ch' e rho um = Ok p' ->
    length rho = (5 + length um)%nat -> ch <> ch' -> (j < length um)%nat ->
    nth j um 0 = (nth j (p_m_cap E p) 0 - nth j (p_m_cap E p') 0) / (ch - ch').
  Proof.
    intros H H' Hl Hne Hj.
    destruct (blinding_recompute _ _ _ _ _ _ H Hl) as [_ [_ [_ [Hm _]]]].
    destruct (blinding_recompute _ _ _ _ _ _ H' Hl) as [_ [_ [_ [Hm' _]]]].
    assert (Hd : ch - ch' <> 0).
    { intros C0. apply Hne. transitivity (ch - ch' + ch'); [ring|]. rewrite C0. ring. }
    assert (Hlen : forall q c0 ir0, proof_finalize E ir0 c0 e rho um = Ok q -> length (p_m_cap E q) = length um).
    { intros q c0 ir0 Hq. unfold proof_finalize in Hq.
      rewrite !(nth_rho E) in Hq by lia. cbn [bind] in Hq. rewrite slice_ok in Hq by lia. cbn [bind] in Hq.
      destruct (finv_opt E _); cbn [try_opt bind] in Hq; [|discriminate]. inversion Hq; subst. cbn [p_m_cap].
      rewrite map_length, combine_length, sub_length by lia. lia. }
    pose proof (f_equal (fun l => nth j l 0) Hm) as N1. pose proof (f_equal (fun l => nth j l 0) Hm') as N2.
    cbn beta in N1, N2.
    rewrite unblind_nth in N1 by (rewrite ?(Hlen _ _ _ H); lia).
    rewrite unblind_nth in N2 by (rewrite ?(Hlen _ _ _ H'); lia).
    assert (Hx : nth j (p_m_cap E p) 0 - nth j (p_m_cap E p') 0 = nth j um 0 * (ch - ch')).
    { transitivity ((nth j (p_m_cap E p) 0 - nth j um 0 * ch) - (nth j (p_m_cap E p') 0 - nth j um 0 * ch') + nth j um 0 * (ch - ch')); [ring|].
      rewrite N1, N2. ring. }
    rewrite Hx. field. exact Hd.
  Qed.

End Snd.
