(* Structural lemmas about the model that do not need the algebraic laws: generator creation,
   index bookkeeping (sort_dedup, remaining), get_at, pop_last, chunks. *)
From ZK Require Import Blind BaseLemmas.
From Coq Require Import Sorting.Sorted FinFun.
Open Scope N_scope.

Section ML.
  Context (E : env).
  Notation P := (PR E).

  (* ---------------------------------------------------------------- generators *)
  Lemma gen_loop_length n i v sd gd : length (gen_loop E n i v sd gd) = n.
  Proof. revert i v; induction n as [|n IH]; intros; cbn; [reflexivity|]. rewrite IH; reflexivity. Qed.

  Lemma create_generators_length n api : length (create_generators E n api) = n.
  Proof. apply gen_loop_length. Qed.

  Lemma gens_create_ok n api p1 : g1_dec P (c_p1 (cs E)) = Some p1 ->
    gens_create E n api = Ok {| g_p1 := p1; g_values := create_generators E n api |}.
  Proof. intros H. unfold gens_create. rewrite H. reflexivity. Qed.

  Lemma gens_create_inv n api g : gens_create E n api = Ok g ->
    g_values E g = create_generators E n api /\ g1_dec P (c_p1 (cs E)) = Some (g_p1 E g).
  Proof.
    unfold gens_create. destruct (g1_dec P (c_p1 (cs E))) as [p|]; cbn; intros H; inversion H; subst; cbn. auto.
  Qed.

  (* prefix consistency: the first k generators do not depend on how many are requested *)
  Lemma gen_loop_prefix n k i v sd gd : (k <= n)%nat ->
    firstn k (gen_loop E n i v sd gd) = gen_loop E k i v sd gd.
  Proof.
    revert k i v; induction n as [|n IH]; intros k i v Hk.
    - assert (k = 0%nat) by lia. subst. reflexivity.
    - destruct k as [|k]; [reflexivity|]. cbn. f_equal. apply IH. lia.
  Qed.

  Theorem create_prefix n k api : (k <= n)%nat ->
    firstn k (create_generators E n api) = create_generators E k api.
  Proof. intros. unfold create_generators. apply gen_loop_prefix; assumption. Qed.
End ML.

(* ---------------------------------------------------------------- index bookkeeping *)
Lemma memN_In x l : memN x l = true <-> In x l.
Proof.
  unfold memN. rewrite existsb_exists. split.
  - intros [y [Hy He]]. apply N.eqb_eq in He. subst. assumption.
  - intros H. exists x. split; [assumption|apply N.eqb_refl].
Qed.

Lemma insert_sorted_In x y l : In y (insert_sorted x l) <-> y = x \/ In y l.
Proof.
  induction l as [|z l IH]; cbn.
  - intuition.
  - destruct (N.ltb_spec x z).
    + cbn. intuition.
    + destruct (N.eqb_spec x z).
      * subst. cbn. intuition.
      * cbn. rewrite IH. intuition.
Qed.

Lemma insert_sorted_length x l : (length (insert_sorted x l) <= Datatypes.S (length l))%nat.
Proof.
  induction l as [|z l IH]; cbn; [lia|].
  destruct (x <? z); [cbn; lia|]. destruct (x =? z); cbn; lia.
Qed.

Lemma sort_dedup_length l : (length (sort_dedup l) <= length l)%nat.
Proof.
  induction l as [|x l IH]; [cbn; lia|].
  change (sort_dedup (x :: l)) with (insert_sorted x (sort_dedup l)).
  pose proof (insert_sorted_length x (sort_dedup l)). cbn [length]. lia.
Qed.

Lemma sort_dedup_In y l : In y (sort_dedup l) <-> In y l.
Proof.
  induction l as [|x l IH]; cbn; [tauto|].
  rewrite insert_sorted_In, IH. intuition.
Qed.

Definition strictly_sorted (l : list N) : Prop := StronglySorted N.lt l.

Lemma insert_sorted_sorted x l : strictly_sorted l -> strictly_sorted (insert_sorted x l).
Proof.
  unfold strictly_sorted. induction l as [|z l IH]; cbn; intros H.
  - repeat constructor.
  - inversion H as [|? ? Hs Hall]; subst.
    destruct (N.ltb_spec x z).
    + constructor; [assumption|]. constructor; [assumption|].
      eapply Forall_impl; [|exact Hall]. cbn; intros; lia.
    + destruct (N.eqb_spec x z); [assumption|].
      constructor; [apply IH; assumption|].
      apply Forall_forall. intros y Hy. apply insert_sorted_In in Hy as [->|Hy]; [lia|].
      rewrite Forall_forall in Hall. apply Hall; assumption.
Qed.

Lemma sort_dedup_sorted l : strictly_sorted (sort_dedup l).
Proof. induction l as [|x l IH]; cbn; [constructor|]. apply insert_sorted_sorted; assumption. Qed.

Lemma strictly_sorted_NoDup l : strictly_sorted l -> NoDup l.
Proof.
  unfold strictly_sorted. induction 1 as [|x l Hs IH Hall]; constructor; [|assumption].
  intros Hin. rewrite Forall_forall in Hall. specialize (Hall x Hin). lia.
Qed.

Lemma insert_sorted_id x l : strictly_sorted (x :: l) -> insert_sorted x l = x :: l.
Proof.
  intros H. inversion H as [|? ? Hs Hall]; subst. destruct l as [|y l]; [reflexivity|].
  cbn. inversion Hall; subst. destruct (N.ltb_spec x y); [reflexivity|lia].
Qed.

Lemma sort_dedup_id l : strictly_sorted l -> sort_dedup l = l.
Proof.
  induction l as [|x l IH]; intros H; [reflexivity|].
  change (sort_dedup (x :: l)) with (insert_sorted x (sort_dedup l)).
  inversion H; subst. rewrite IH by assumption. apply insert_sorted_id; assumption.
Qed.

Lemma sort_dedup_idem l : sort_dedup (sort_dedup l) = sort_dedup l.
Proof. apply sort_dedup_id, sort_dedup_sorted. Qed.

Lemma remaining_In n idx y : In y (remaining n idx) <-> (y < N.of_nat n /\ ~ In y idx).
Proof.
  unfold remaining. rewrite filter_In, in_map_iff. split.
  - intros [[k [Hk Hin]] Hm]. apply in_seq in Hin. subst y. split; [lia|].
    intros C. apply memN_In in C. rewrite C in Hm. discriminate.
  - intros [Hlt Hn]. split.
    + exists (N.to_nat y). split; [lia|]. apply in_seq. lia.
    + destruct (memN y idx) eqn:Em; [|reflexivity]. apply memN_In in Em. contradiction.
Qed.

Lemma remaining_ext n idx idx' : (forall y, In y idx <-> In y idx') -> remaining n idx = remaining n idx'.
Proof.
  intros H. unfold remaining. apply filter_ext. intros a. f_equal.
  destruct (memN a idx) eqn:E1, (memN a idx') eqn:E2; try reflexivity.
  - apply memN_In, H, memN_In in E1. congruence.
  - apply memN_In, H, memN_In in E2. congruence.
Qed.

Lemma remaining_sort_dedup n idx : remaining n (sort_dedup idx) = remaining n idx.
Proof. apply remaining_ext. intros; apply sort_dedup_In. Qed.

Lemma seqN_NoDup n : NoDup (map N.of_nat (seq 0 n)).
Proof.
  apply Injective_map_NoDup; [|apply seq_NoDup].
  intros a b H. lia.
Qed.

Lemma remaining_NoDup n idx : NoDup (remaining n idx).
Proof. unfold remaining. apply NoDup_filter, seqN_NoDup. Qed.

Lemma memN_cons a x idx : memN a (x :: idx) = ((a =? x) || memN a idx)%bool.
Proof. reflexivity. Qed.

Lemma filter_all_true {A} (f : A -> bool) l : (forall a, f a = true) -> filter f l = l.
Proof. intros H. induction l as [|a l IH]; cbn; [reflexivity|]. rewrite H, IH. reflexivity. Qed.

(* removing the members of idx from a duplicate-free list removes at most |idx| elements *)
Lemma filter_not_mem_length (l idx : list N) : NoDup l ->
  (length l <= length (filter (fun i => negb (memN i idx)) l) + length idx)%nat.
Proof.
  revert l; induction idx as [|x idx IH]; intros l Hnd.
  - rewrite filter_all_true by reflexivity. cbn. lia.
  - specialize (IH l Hnd).
    assert (Hs : (length (filter (fun i => negb (memN i idx)) l) <=
                  length (filter (fun i => negb (memN i (x :: idx))) l) + 1)%nat).
    { clear IH. induction l as [|a l IHl]; [cbn; lia|].
      inversion Hnd as [|? ? Hna Hnd']; subst. specialize (IHl Hnd').
      cbn [filter]. rewrite memN_cons.
      destruct (N.eqb_spec a x) as [->|Hne].
      - cbn [orb negb]. destruct (memN x idx); cbn [negb length].
        + exact IHl.
        + assert (Heq : filter (fun i => negb (memN i (x :: idx))) l = filter (fun i => negb (memN i idx)) l).
          { apply filter_ext_in. intros b Hb. rewrite memN_cons.
            destruct (N.eqb_spec b x); [subst; contradiction|reflexivity]. }
          rewrite Heq. lia.
      - cbn [orb]. destruct (memN a idx); cbn [negb length]; lia. }
    cbn [length]. lia.
Qed.

Lemma remaining_length_ge n idx : (n <= length (remaining n idx) + length idx)%nat.
Proof.
  pose proof (filter_not_mem_length (map N.of_nat (seq 0 n)) idx (seqN_NoDup n)) as H.
  rewrite map_length, seq_length in H. exact H.
Qed.

(* complement of a duplicate-free subset of [0, n) has exactly n - |idx| elements *)
Lemma filter_mem_partition (l idx : list N) : NoDup l -> NoDup idx -> (forall y, In y idx -> In y l) ->
  (length (filter (fun i => negb (memN i idx)) l) + length idx = length l)%nat.
Proof.
  revert l; induction idx as [|x idx IH]; intros l Hl Hi Hsub.
  - rewrite filter_all_true by reflexivity. cbn. lia.
  - inversion Hi as [|? ? Hx Hi']; subst.
    assert (Hin : In x l) by (apply Hsub; left; reflexivity).
    apply in_split in Hin as [l1 [l2 ->]].
    assert (Hl' : NoDup (l1 ++ l2)) by (eapply NoDup_remove_1; exact Hl).
    assert (Hnx : ~ In x (l1 ++ l2)) by (eapply NoDup_remove_2; exact Hl).
    specialize (IH (l1 ++ l2) Hl' Hi').
    assert (Hsub' : forall y, In y idx -> In y (l1 ++ l2)).
    { intros y Hy. assert (Hy' : In y (l1 ++ x :: l2)) by (apply Hsub; right; assumption).
      apply in_app_or in Hy' as [Hy'|[Hy'|Hy']]; [apply in_or_app; left; assumption| |apply in_or_app; right; assumption].
      subst y. contradiction. }
    specialize (IH Hsub').
    assert (Heq : filter (fun i => negb (memN i (x :: idx))) (l1 ++ x :: l2) =
                  filter (fun i => negb (memN i idx)) (l1 ++ l2)).
    { rewrite !filter_app. cbn [filter]. rewrite memN_cons, N.eqb_refl. cbn [orb negb].
      f_equal; apply filter_ext_in; intros b Hb; rewrite memN_cons;
        (destruct (N.eqb_spec b x); [subst; exfalso; apply Hnx; apply in_or_app; auto|reflexivity]). }
    rewrite Heq. rewrite app_length in *. cbn [length]. lia.
Qed.

Lemma remaining_length n idx : NoDup idx -> (forall y, In y idx -> y < N.of_nat n) ->
  (length (remaining n idx) + length idx = n)%nat.
Proof.
  intros Hnd Hlt.
  pose proof (filter_mem_partition (map N.of_nat (seq 0 n)) idx (seqN_NoDup n) Hnd) as H.
  rewrite map_length, seq_length in H. apply H.
  intros y Hy. apply in_map_iff. exists (N.to_nat y). split; [lia|]. apply in_seq. specialize (Hlt y Hy). lia.
Qed.

Lemma existsb_ge_false n l : existsb (fun i => n <=? i) l = false <-> (forall y, In y l -> y < n).
Proof.
  split.
  - intros H y Hy. destruct (N.ltb_spec y n); [assumption|].
    assert (existsb (fun i => n <=? i) l = true) by (apply existsb_exists; exists y; split; [assumption|apply N.leb_le; assumption]).
    congruence.
  - intros H. destruct (existsb (fun i => n <=? i) l) eqn:Ee; [|reflexivity].
    apply existsb_exists in Ee as [y [Hy Hle]]. apply N.leb_le in Hle. specialize (H y Hy). lia.
Qed.

(* ---------------------------------------------------------------- get_at *)
Lemma get_at_ok {A} (l : list A) idx : (forall y, In y idx -> y < len l) ->
  exists r, get_at l idx = Ok r /\ length r = length idx.
Proof.
  intros H. unfold get_at.
  destruct (mapM_total (fun i => index l (N.to_nat i)) idx) as [r Hr].
  - intros a Ha. unfold index. specialize (H a Ha). unfold len in H.
    destruct (nth_error l (N.to_nat a)) eqn:En; [eexists; reflexivity|].
    apply nth_error_None in En. lia.
  - exists r. split; [assumption|]. eapply mapM_ok_length; eassumption.
Qed.

Lemma pop_last_app {A} (l : list A) x : pop_last (l ++ [x]) = Some (l, x).
Proof. unfold pop_last. rewrite rev_app_distr. cbn. rewrite rev_involutive. reflexivity. Qed.

Lemma pop_last_some {A} (l r : list A) x : pop_last l = Some (r, x) -> l = r ++ [x].
Proof.
  unfold pop_last. destruct (rev l) as [|y t] eqn:Er; [discriminate|].
  intros H; inversion H; subst. rewrite <- (rev_involutive l), Er. reflexivity.
Qed.

(* ---------------------------------------------------------------- uniqueness of sorted index lists *)
Lemma strictly_sorted_unique l1 l2 : strictly_sorted l1 -> strictly_sorted l2 ->
  (forall y, In y l1 <-> In y l2) -> l1 = l2.
Proof.
  revert l2. induction l1 as [|x l1 IH]; intros [|y l2] H1 H2 Hm.
  - reflexivity.
  - exfalso. apply (proj2 (Hm y)). left; reflexivity.
  - exfalso. apply (proj1 (Hm x)). left; reflexivity.
  - inversion H1 as [|? ? Hs1 Ha1]; inversion H2 as [|? ? Hs2 Ha2]; subst.
    rewrite Forall_forall in Ha1, Ha2.
    assert (x = y).
    { destruct (proj1 (Hm x) (or_introl eq_refl)) as [->|Hx]; [reflexivity|].
      destruct (proj2 (Hm y) (or_introl eq_refl)) as [->|Hy]; [reflexivity|].
      specialize (Ha2 x Hx). specialize (Ha1 y Hy). lia. }
    subst y. f_equal. apply IH; try assumption.
    intros z. split; intros Hz.
    + destruct (proj1 (Hm z) (or_intror Hz)) as [->|?]; [|assumption]. specialize (Ha1 _ Hz). lia.
    + destruct (proj2 (Hm z) (or_intror Hz)) as [->|?]; [|assumption]. specialize (Ha2 _ Hz). lia.
Qed.

Lemma sort_dedup_unique X T : strictly_sorted T -> (forall y, In y T <-> In y X) -> sort_dedup X = T.
Proof.
  intros HT Hm. apply strictly_sorted_unique; [apply sort_dedup_sorted|assumption|].
  intros y. rewrite sort_dedup_In. symmetry. apply Hm.
Qed.

Lemma strictly_sorted_app a b : strictly_sorted a -> strictly_sorted b ->
  (forall x y, In x a -> In y b -> x < y) -> strictly_sorted (a ++ b).
Proof.
  unfold strictly_sorted. induction a as [|x a IH]; cbn; intros Ha Hb Hlt; [assumption|].
  inversion Ha as [|? ? Hs Hall]; subst. constructor.
  - apply IH; [assumption|assumption|]. intros; apply Hlt; [right|]; assumption.
  - apply Forall_app. split; [assumption|]. apply Forall_forall. intros y Hy. apply Hlt; [left; reflexivity|assumption].
Qed.

Lemma strictly_sorted_map (f : N -> N) l : (forall x y, x < y -> f x < f y) ->
  strictly_sorted l -> strictly_sorted (map f l).
Proof.
  unfold strictly_sorted. intros Hf. induction 1 as [|x l Hs IH Hall]; cbn; constructor; [assumption|].
  rewrite Forall_forall in *. intros y Hy. apply in_map_iff in Hy as [z [<- Hz]]. apply Hf, Hall, Hz.
Qed.

(* the blind interface's index translation j |-> j + L + 1 *)
Definition shiftN (L : nat) (j : N) : N := j + N.of_nat L + 1.

Lemma sort_dedup_blind_indexes L a b : (forall x, In x a -> x < N.of_nat L) ->
  sort_dedup (a ++ map (shiftN L) b) = sort_dedup a ++ map (shiftN L) (sort_dedup b).
Proof.
  intros Ha. apply sort_dedup_unique.
  - apply strictly_sorted_app; [apply sort_dedup_sorted| |].
    + apply strictly_sorted_map; [unfold shiftN; intros; lia|apply sort_dedup_sorted].
    + intros x y Hx Hy. apply (proj1 (sort_dedup_In _ _)) in Hx. apply in_map_iff in Hy as [z [<- _]].
      specialize (Ha x Hx). unfold shiftN. lia.
  - intros y. rewrite !in_app_iff, sort_dedup_In, !in_map_iff.
    split; (intros [H|[z [Hz Hin]]]; [left; assumption|right; exists z; split; [assumption|]]).
    + apply (proj1 (sort_dedup_In _ _)) in Hin; assumption.
    + apply (proj2 (sort_dedup_In _ _)); assumption.
Qed.

Lemma mapM_uadd_shift L l : (forall j, In j l -> j + N.of_nat L + 1 <= usize_max) ->
  mapM (fun j => let* a := uadd j (N.of_nat L) in uadd a 1) l = Ok (map (shiftN L) l).
Proof.
  induction l as [|j l IH]; intros H; cbn [mapM map]; [reflexivity|].
  assert (Hj := H j (or_introl eq_refl)).
  unfold uadd at 1. destruct (N.leb_spec (j + N.of_nat L) usize_max); [|lia]. cbn [bind].
  unfold uadd at 1. destruct (N.leb_spec (j + N.of_nat L + 1) usize_max); [|lia]. cbn [bind].
  rewrite IH by (intros; apply H; right; assumption). reflexivity.
Qed.
