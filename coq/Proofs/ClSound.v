(* C16 (rejection / soundness core of the Boudot sub-proofs, for every modulus, every invertible bases, every responses --
   negative ones included):
   - what a verifier computes: the three sigma protocols of range_proof.rs recompute a commitment
       W = g^D h^D' E^(-c) mod n   and compare a hash of it with the challenge (verify_*_spec);
   - SPECIAL SOUNDNESS: two (challenge, responses) triples that recompute to the same commitment give the relation
       g^(D - D') h^(D1 - D1') == E^(c - c')   (and, for the same-secret proof, the same exponent D - D' on the second pair of
       bases: the two commitments hide the SAME value; for the square proof F = g^x h^r2 and E = F^x h^r3);
   - RIGIDITY of accepted proofs: two accepted proofs with the same challenge for the same statement either carry responses that
       differ by a relation between the bases (g^dD h^dD1 == 1: a discrete-log relation the prover is not supposed to know), or
       exhibit a collision of the challenge hash.  In particular an accepted proof with ONE response edited is accepted only
       if the edit is a multiple of the order of that base, or the hash collides.
   Not formalised: the rewinding argument that produces the two triples, and the strong-RSA step that divides by c - c'. *)
From ZK Require Import Cl ClArith ClSig ClMore ClGroup ClBoudot.
From Coq Require Import ZArith Lia Zdiv Setoid Morphisms List Bool.
Import ListNotations.
Open Scope Z_scope.

Section S.
  Variable n : Z.
  Hypothesis Hn : 0 < n.

  Definition cgs (a b : Z) : Prop := eqm n a b.
  Local Infix "==" := cgs (at level 70).
  Local Instance cgs_equiv : Equivalence cgs.
  Proof. unfold cgs. split; [intros x; apply eqm_refl|intros x y; apply eqm_sym|intros x y z; apply eqm_trans]. Qed.
  Local Instance cgs_mul : Proper (cgs ==> cgs ==> cgs) Z.mul.
  Proof. intros a a' Ha b b' Hb. unfold cgs in *. apply eqm_mul; assumption. Qed.

  Lemma cgs_mod x : x mod n == x. Proof. apply Zmod_eqm. Qed.
  Lemma cgs_eq a b : a = b -> a == b. Proof. intros ->. reflexivity. Qed.
  Lemma cgs_cancel u v x xi : x * xi == 1 -> u * x == v * x -> u == v.
  Proof.
    intros Hx H.
    assert (E1 : u == u * x * xi). { rewrite <- Z.mul_assoc, Hx. apply cgs_eq; ring. }
    assert (E2 : v == v * x * xi). { rewrite <- Z.mul_assoc, Hx. apply cgs_eq; ring. }
    rewrite E1, E2, H. reflexivity.
  Qed.

  (* ---------------------------------------------------------------- one side of a sigma protocol *)
  Section Side.
    Variables g gi h hi E Ei : Z.
    Hypothesis Hg : invert g n = Some gi.
    Hypothesis Hh : invert h n = Some hi.
    Hypothesis HE : invert E n = Some Ei.
    Let G := gp n g gi.
    Let H := gp n h hi.
    Let X := gp n E Ei.
    Let Hgu : g * gi == 1 := invert_eqm n g gi Hg.
    Let Hhu : h * hi == 1 := invert_eqm n h hi Hh.
    Let HEu : E * Ei == 1 := invert_eqm n E Ei HE.

    (* the commitment recomputed from a challenge and two responses *)
    Definition ssW (d d1 c : Z) : Z := (G d * H d1 * X (- c)) mod n.

    Lemma ssW_computes d d1 c :
      (let* iE := pow_mod E (- 1 * c) n in
       let* a := pow_mod g d n in let* b := pow_mod h d1 n in Ok (Z.rem (a * b * iE) n)) = Ok (ssW d d1 c).
    Proof.
      replace (- 1 * c) with (- c) by ring.
      rewrite (pow_mod_gp n Hn E Ei _ HE), (pow_mod_gp n Hn g gi _ Hg), (pow_mod_gp n Hn h hi _ Hh). cbn [bind].
      unfold ssW, G, H, X. rewrite rem_mod_nonneg; [reflexivity| |exact Hn].
      pose proof (gp_range n Hn g gi d). pose proof (gp_range n Hn h hi d1). pose proof (gp_range n Hn E Ei (- c)).
      apply Z.mul_nonneg_nonneg; [apply Z.mul_nonneg_nonneg|]; lia.
    Qed.

    Lemma G_split a b : G a == G (a - b) * G b.
    Proof. replace a with ((a - b) + b) at 1 by ring. apply (gp_add n Hn g gi Hgu). Qed.
    Lemma H_split a b : H a == H (a - b) * H b.
    Proof. replace a with ((a - b) + b) at 1 by ring. apply (gp_add n Hn h hi Hhu). Qed.
    Lemma X_split c c' : X (- c') == X (c - c') * X (- c).
    Proof. replace (- c') with ((c - c') + - c) at 1 by ring. apply (gp_add n Hn E Ei HEu). Qed.

    Lemma side_unit d' d1' c : (G d' * H d1' * X (- c)) * (G (- d') * H (- d1') * X c) == 1.
    Proof.
      pose proof (gp_opp n Hn g gi Hgu d') as H1. pose proof (gp_opp n Hn h hi Hhu d1') as H2.
      pose proof (gp_opp n Hn E Ei HEu c) as H3. fold G in H1. fold H in H2. fold X in H3.
      change (G d' * G (- d') == 1) in H1. change (H d1' * H (- d1') == 1) in H2. change (X c * X (- c) == 1) in H3.
      transitivity ((G d' * G (- d')) * (H d1' * H (- d1')) * (X c * X (- c))); [apply cgs_eq; ring|].
      rewrite H1, H2, H3. reflexivity.
    Qed.

    (* special soundness of one side *)
    Theorem side_extract d d1 c d' d1' c' :
      ssW d d1 c = ssW d' d1' c' -> G (d - d') * H (d1 - d1') == X (c - c').
    Proof.
      intros Heq.
      assert (Hq : G d * H d1 * X (- c) == G d' * H d1' * X (- c')).
      { rewrite <- (cgs_mod (G d * H d1 * X (- c))), <- (cgs_mod (G d' * H d1' * X (- c'))). apply cgs_eq. exact Heq. }
      rewrite (G_split d d'), (H_split d1 d1'), (X_split c c') in Hq.
      apply (cgs_cancel _ _ (G d' * H d1' * X (- c)) (G (- d') * H (- d1') * X c) (side_unit d' d1' c)).
      transitivity (G (d - d') * G d' * (H (d1 - d1') * H d1') * X (- c)); [apply cgs_eq; ring|].
      rewrite Hq. apply cgs_eq; ring.
    Qed.

    Lemma X_0 : X 0 == 1. Proof. apply (gp_0 n). Qed.

    (* same challenge: the difference of the responses is a relation between the bases *)
    Corollary side_same_challenge d d1 d' d1' c :
      ssW d d1 c = ssW d' d1' c -> G (d - d') * H (d1 - d1') == 1.
    Proof. intros Heq. rewrite (side_extract _ _ _ _ _ _ Heq). replace (c - c) with 0 by ring. apply X_0. Qed.
  End Side.

  (* ---------------------------------------------------------------- Algorithms 1 / 2: same secret *)
  Section SameSecret.
    Variables g1 g1i h1 h1i g2 g2i h2 h2i E Ei F Fi : Z.
    Hypothesis Hg1 : invert g1 n = Some g1i. Hypothesis Hh1 : invert h1 n = Some h1i.
    Hypothesis Hg2 : invert g2 n = Some g2i. Hypothesis Hh2 : invert h2 n = Some h2i.
    Hypothesis HE : invert E n = Some Ei. Hypothesis HF : invert F n = Some Fi.

    Definition ss_W1 (p : proof_ss) : Z := ssW g1 g1i h1 h1i E Ei (ss_d p) (ss_d1 p) (ss_chal p).
    Definition ss_W2 (p : proof_ss) : Z := ssW g2 g2i h2 h2i F Fi (ss_d p) (ss_d2 p) (ss_chal p).

    Theorem verify_same_secret_spec p :
      verify_same_secret E F g1 h1 g2 h2 n p = Ok (ss_chal p =? hash_int (str_cat [ss_W1 p; ss_W2 p])).
    Proof.
      unfold verify_same_secret.
      pose proof (ssW_computes g1 g1i h1 h1i E Ei Hg1 Hh1 HE (ss_d p) (ss_d1 p) (ss_chal p)) as H1.
      pose proof (ssW_computes g2 g2i h2 h2i F Fi Hg2 Hh2 HF (ss_d p) (ss_d2 p) (ss_chal p)) as H2.
      replace (- 1 * ss_chal p) with (- ss_chal p) in * by ring.
      rewrite (pow_mod_gp n Hn E Ei _ HE) in *. rewrite (pow_mod_gp n Hn F Fi _ HF) in *. cbn [bind] in *.
      rewrite (pow_mod_gp n Hn g1 g1i _ Hg1) in *. rewrite (pow_mod_gp n Hn h1 h1i _ Hh1) in *. cbn [bind] in *.
      rewrite (pow_mod_gp n Hn g2 g2i _ Hg2) in *. rewrite (pow_mod_gp n Hn h2 h2i _ Hh2) in *. cbn [bind] in *.
      inversion H1 as [H1']. inversion H2 as [H2']. unfold ss_W1, ss_W2. rewrite H1', H2'. reflexivity.
    Qed.

    (* two triples that recompute to the same two commitments: ONE exponent D - D' opens both E^(c - c') and F^(c - c') *)
    Theorem same_secret_special_soundness p p' :
      ss_W1 p = ss_W1 p' -> ss_W2 p = ss_W2 p' ->
      gp n g1 g1i (ss_d p - ss_d p') * gp n h1 h1i (ss_d1 p - ss_d1 p') == gp n E Ei (ss_chal p - ss_chal p') /\
      gp n g2 g2i (ss_d p - ss_d p') * gp n h2 h2i (ss_d2 p - ss_d2 p') == gp n F Fi (ss_chal p - ss_chal p').
    Proof.
      intros H1 H2. split.
      - apply (side_extract g1 g1i h1 h1i E Ei Hg1 Hh1 HE _ _ _ _ _ _ H1).
      - apply (side_extract g2 g2i h2 h2i F Fi Hg2 Hh2 HF _ _ _ _ _ _ H2).
    Qed.

    (* two accepted proofs of the same statement with the same challenge: a relation between the bases, or a collision *)
    Theorem same_secret_rigid p p' :
      verify_same_secret E F g1 h1 g2 h2 n p = Ok true -> verify_same_secret E F g1 h1 g2 h2 n p' = Ok true ->
      ss_chal p = ss_chal p' ->
      (gp n g1 g1i (ss_d p - ss_d p') * gp n h1 h1i (ss_d1 p - ss_d1 p') == 1 /\
       gp n g2 g2i (ss_d p - ss_d p') * gp n h2 h2i (ss_d2 p - ss_d2 p') == 1) \/
      ([ss_W1 p; ss_W2 p] <> [ss_W1 p'; ss_W2 p'] /\
       hash_int (str_cat [ss_W1 p; ss_W2 p]) = hash_int (str_cat [ss_W1 p'; ss_W2 p'])).
    Proof.
      intros Hv Hv' Hc. rewrite verify_same_secret_spec in Hv, Hv'.
      inversion Hv as [Hv1]. inversion Hv' as [Hv1']. apply Z.eqb_eq in Hv1, Hv1'.
      destruct (Z.eq_dec (ss_W1 p) (ss_W1 p')) as [E1|N1].
      - destruct (Z.eq_dec (ss_W2 p) (ss_W2 p')) as [E2|N2].
        + left. unfold ss_W1, ss_W2 in E1, E2. rewrite <- Hc in E1, E2. split.
          * apply (side_same_challenge g1 g1i h1 h1i E Ei Hg1 Hh1 HE _ _ _ _ _ E1).
          * apply (side_same_challenge g2 g2i h2 h2i F Fi Hg2 Hh2 HF _ _ _ _ _ E2).
        + right. split; [intros Hl; inversion Hl; contradiction|]. transitivity (ss_chal p); [symmetry; exact Hv1|rewrite Hc; exact Hv1'].
      - right. split; [intros Hl; inversion Hl; contradiction|]. transitivity (ss_chal p); [symmetry; exact Hv1|rewrite Hc; exact Hv1'].
    Qed.

    (* editing only the first randomness response of an accepted proof *)
    Corollary same_secret_d1_edit p delta :
      verify_same_secret E F g1 h1 g2 h2 n p = Ok true ->
      verify_same_secret E F g1 h1 g2 h2 n
        {| ss_chal := ss_chal p; ss_d := ss_d p; ss_d1 := ss_d1 p + delta; ss_d2 := ss_d2 p |} = Ok true ->
      gp n h1 h1i delta == 1 \/
      exists a b, a <> b /\ hash_int (str_cat a) = hash_int (str_cat b).
    Proof.
      intros Hv Hv'. set (p' := {| ss_chal := ss_chal p; ss_d := ss_d p; ss_d1 := ss_d1 p + delta; ss_d2 := ss_d2 p |}) in *.
      destruct (same_secret_rigid p' p Hv' Hv eq_refl) as [[H1 _]|[Hne Hh]].
      - left. cbn [p' ss_d ss_d1] in H1. replace (ss_d p - ss_d p) with 0 in H1 by ring.
        replace (ss_d1 p + delta - ss_d1 p) with delta in H1 by ring.
        pose proof (gp_0 n g1 g1i) as H0. change (gp n g1 g1i 0 == 1) in H0. rewrite H0 in H1.
        rewrite Z.mul_1_l in H1. exact H1.
      - right. eauto.
    Qed.
  End SameSecret.

  (* ---------------------------------------------------------------- Algorithm 3 / 4: a committed square *)
  Section Square.
    Variables g gi h hi : Z.
    Hypothesis Hg : invert g n = Some gi. Hypothesis Hh : invert h n = Some hi.

    (* verify_of_square is the same-secret verifier for (F ; E) over the bases (g, h ; F, h): F = g^x h^r2, E = F^x h^r3 *)
    Theorem square_special_soundness (p p' : proof_sq) Ei Fi :
      sq_E p = sq_E p' -> sq_F p = sq_F p' ->
      invert (sq_E p) n = Some Ei -> invert (sq_F p) n = Some Fi ->
      ss_W1 g gi h hi (sq_F p) Fi (sq_ss p) = ss_W1 g gi h hi (sq_F p) Fi (sq_ss p') ->
      ss_W2 (sq_F p) Fi h hi (sq_E p) Ei (sq_ss p) = ss_W2 (sq_F p) Fi h hi (sq_E p) Ei (sq_ss p') ->
      let dx := ss_d (sq_ss p) - ss_d (sq_ss p') in
      let dc := ss_chal (sq_ss p) - ss_chal (sq_ss p') in
      gp n g gi dx * gp n h hi (ss_d1 (sq_ss p) - ss_d1 (sq_ss p')) == gp n (sq_F p) Fi dc /\
      gp n (sq_F p) Fi dx * gp n h hi (ss_d2 (sq_ss p) - ss_d2 (sq_ss p')) == gp n (sq_E p) Ei dc.
    Proof.
      intros _ _ HEi HFi H1 H2. cbv zeta.
      apply (same_secret_special_soundness g gi h hi (sq_F p) Fi h hi (sq_F p) Fi (sq_E p) Ei Hg Hh HFi Hh HFi HEi _ _ H1 H2).
    Qed.

    Theorem verify_of_square_spec (p : proof_sq) Ei Fi :
      0 <= sq_F p < n ->
      invert (sq_E p) n = Some Ei -> invert (sq_F p) n = Some Fi ->
      verify_of_square p g h n =
      Ok (ss_chal (sq_ss p) =? hash_int (str_cat [ss_W1 g gi h hi (sq_F p) Fi (sq_ss p);
                                                   ss_W2 (sq_F p) Fi h hi (sq_E p) Ei (sq_ss p)])).
    Proof.
      intros HFr HEi HFi. unfold verify_of_square.
      destruct (Z.ltb_spec (sq_F p) 0) as [|_]; [lia|]. destruct (Z.leb_spec n (sq_F p)) as [|_]; [lia|]. cbn [orb].
      apply (verify_same_secret_spec g gi h hi (sq_F p) Fi h hi (sq_F p) Fi (sq_E p) Ei Hg Hh HFi Hh HFi HEi).
    Qed.
  End Square.

  (* ---------------------------------------------------------------- Algorithm 5 / 6: larger interval (CFT) *)
  Section Large.
    Variables g gi h hi E Ei : Z.
    Hypothesis Hg : invert g n = Some gi. Hypothesis Hh : invert h n = Some hi. Hypothesis HE : invert E n = Some Ei.

    Definition li_c (BP : bparams) (p : proof_li) : Z := Z.rem (li_C p) (two (b_t BP)).
    Definition li_W (BP : bparams) (p : proof_li) : Z := ssW g gi h hi E Ei (li_D1 p) (li_D2 p) (li_c BP p).

    Theorem verify_large_interval_spec BP p b T :
      verify_large_interval BP p E g h n b T =
      Ok ((li_c BP p * b <=? li_D1 p) && (li_D1 p <=? li_upper BP T b) && (li_C p =? hash_int (to_string (li_W BP p)))).
    Proof.
      unfold verify_large_interval. fold (li_c BP p).
      pose proof (ssW_computes g gi h hi E Ei Hg Hh HE (li_D1 p) (li_D2 p) (li_c BP p)) as H1.
      replace (- 1 * li_c BP p) with (- li_c BP p) in * by ring.
      rewrite (pow_mod_gp n Hn E Ei _ HE) in *. rewrite (pow_mod_gp n Hn g gi _ Hg) in *.
      rewrite (pow_mod_gp n Hn h hi _ Hh) in *. cbn [bind] in *.
      inversion H1 as [H1']. unfold li_W. rewrite H1'. reflexivity.
    Qed.

    (* an accepted proof has its first response inside [c b, 2^T (2^(t+l) b - 1)] *)
    Corollary large_interval_accepts_bounds BP p b T :
      verify_large_interval BP p E g h n b T = Ok true -> li_c BP p * b <= li_D1 p <= li_upper BP T b.
    Proof.
      rewrite verify_large_interval_spec. intros Hv. inversion Hv as [Hb].
      apply andb_true_iff in Hb as [Hb _]. apply andb_true_iff in Hb as [H1 H2]. split; [apply Z.leb_le, H1|apply Z.leb_le, H2].
    Qed.

    Theorem large_interval_special_soundness BP p p' :
      li_W BP p = li_W BP p' ->
      gp n g gi (li_D1 p - li_D1 p') * gp n h hi (li_D2 p - li_D2 p') == gp n E Ei (li_c BP p - li_c BP p').
    Proof. intros H1. apply (side_extract g gi h hi E Ei Hg Hh HE _ _ _ _ _ _ H1). Qed.

    (* two accepted proofs of the same statement carrying the same digest C *)
    Theorem large_interval_rigid BP p p' b T :
      verify_large_interval BP p E g h n b T = Ok true -> verify_large_interval BP p' E g h n b T = Ok true ->
      li_C p = li_C p' ->
      gp n g gi (li_D1 p - li_D1 p') * gp n h hi (li_D2 p - li_D2 p') == 1 \/
      (li_W BP p <> li_W BP p' /\ hash_int (to_string (li_W BP p)) = hash_int (to_string (li_W BP p'))).
    Proof.
      intros Hv Hv' HC. rewrite verify_large_interval_spec in Hv, Hv'.
      inversion Hv as [Hb]. inversion Hv' as [Hb'].
      apply andb_true_iff in Hb as [_ Hb]. apply andb_true_iff in Hb' as [_ Hb']. apply Z.eqb_eq in Hb, Hb'.
      destruct (Z.eq_dec (li_W BP p) (li_W BP p')) as [E1|N1].
      - left. unfold li_W in E1. assert (Hc : li_c BP p = li_c BP p') by (unfold li_c; rewrite HC; reflexivity).
        rewrite <- Hc in E1. apply (side_same_challenge g gi h hi E Ei Hg Hh HE _ _ _ _ _ E1).
      - right. split; [exact N1|]. transitivity (li_C p); [symmetry; exact Hb|rewrite HC; exact Hb'].
    Qed.
  End Large.
End S.
