(* C08: no public decoding / verification entry point of the model panics, for all inputs
   (arbitrary byte strings, index lists, counts); work bounds on generator creation. *)
From ZK Require Import Blind BaseLemmas ModelLemmas.
Open Scope N_scope.

Ltac np :=
  repeat match goal with
  | |- Err <> Panic => discriminate
  | |- Ok _ <> Panic => discriminate
  | |- NoDraw <> Panic => discriminate
  | |- try_opt _ <> Panic => apply try_opt_not_panic
  | |- (let (_, _) := ?p in _) <> Panic => destruct p
  | |- bind ?x ?f <> Panic => apply bind_not_panic; [ | let a := fresh "v" in let H := fresh "Hv" in intros a H ]
  | |- (if ?c then _ else _) <> Panic => let H := fresh "Hc" in destruct c eqn:H
  end.

Lemma slice_np {A} (l : list A) a b : (a <= b)%nat -> (b <= length l)%nat -> slice l a b <> Panic.
Proof. intros. rewrite slice_ok by assumption. discriminate. Qed.
Lemma slice_from_np {A} (l : list A) a : (a <= length l)%nat -> slice_from l a <> Panic.
Proof. intros. rewrite slice_from_ok by assumption. discriminate. Qed.
Lemma index_np {A} (l : list A) i : (i < length l)%nat -> index l i <> Panic.
Proof.
  intros H. unfold index. destruct (nth_error l i) eqn:En; cbn; [discriminate|].
  apply nth_error_None in En. lia.
Qed.
Lemma get_at_np {A} (l : list A) idx : (forall y, In y idx -> y < len l) -> get_at l idx <> Panic.
Proof. intros H. destruct (get_at_ok l idx H) as [r [-> _]]. discriminate. Qed.

Lemma ltb_orb_false a b c : (Nat.ltb a b || c)%bool = false -> (b <= a)%nat /\ c = false.
Proof. intros H. apply orb_false_iff in H as [H1 H2]. apply Nat.ltb_ge in H1. auto. Qed.

Section NP.
  Context (E : env).
  Notation S := (SO E).
  Notation P := (PR E).

  Lemma mapM_try_opt_np {A B} (f : A -> option B) l : mapM (fun a => try_opt (f a)) l <> Panic.
  Proof. apply mapM_not_panic. intros; apply try_opt_not_panic. Qed.

  Lemma scalars_of_chunks_np b : scalars_of_chunks E b <> Panic.
  Proof. apply mapM_try_opt_np. Qed.

  Lemma hash_to_scalar_np m d : hash_to_scalar E m d <> Panic.
  Proof. unfold hash_to_scalar. destruct (Nat.ltb 255 (length d)); discriminate. Qed.

  Lemma messages_to_scalars_np msgs api : messages_to_scalars E msgs api <> Panic.
  Proof. apply mapM_not_panic. intros; apply hash_to_scalar_np. Qed.

  Lemma messages_to_scalars_len msgs api r : messages_to_scalars E msgs api = Ok r -> length r = length msgs.
  Proof. apply mapM_ok_length. Qed.

  (* ---------------------------------------------------------------- decoders *)
  Theorem no_panic_sk_from_bytes b : sk_from_bytes E b <> Panic.
  Proof. unfold sk_from_bytes. np. Qed.

  Theorem no_panic_pk_from_bytes b : pk_from_bytes E b <> Panic.
  Proof. unfold pk_from_bytes. np. Qed.

  Theorem no_panic_pk_from_xy x y : pk_from_xy E x y <> Panic.
  Proof. unfold pk_from_xy. np. Qed.

  Theorem no_panic_sig_from_bytes b : sig_from_bytes E b <> Panic.
  Proof. unfold sig_from_bytes. np. Qed.

  Theorem no_panic_blind_from_bytes b : blind_from_bytes E b <> Panic.
  Proof. unfold blind_from_bytes. np. Qed.

  Theorem no_panic_pok_from_bytes b : pok_from_bytes E b <> Panic.
  Proof.
    unfold pok_from_bytes. destruct (Nat.ltb (length b) 272 || _)%bool eqn:Hc; [discriminate|].
    apply ltb_orb_false in Hc as [Hl _].
    np; try (apply slice_np; lia); try (apply slice_from_np; lia); try apply scalars_of_chunks_np.
  Qed.

  Theorem no_panic_zkpok_from_bytes b : zkpok_from_bytes E b <> Panic.
  Proof.
    unfold zkpok_from_bytes. destruct (Nat.ltb (length b) 64 || _)%bool eqn:Hc; [discriminate|].
    apply ltb_orb_false in Hc as [Hl _].
    np; try (apply slice_np; lia); try (apply slice_from_np; lia); try apply scalars_of_chunks_np.
  Qed.

  Theorem no_panic_commitment_from_bytes b : commitment_from_bytes E b <> Panic.
  Proof.
    unfold commitment_from_bytes. destruct (Nat.ltb (length b) 48) eqn:Hc; [discriminate|].
    apply Nat.ltb_ge in Hc.
    np; try (apply slice_np; lia); try (apply slice_from_np; lia); try apply no_panic_zkpok_from_bytes.
  Qed.

  (* ---------------------------------------------------------------- front ends *)
  Hypothesis P1_ok : exists p, g1_dec P (c_p1 (cs E)) = Some p.

  Lemma gens_create_np n api : gens_create E n api <> Panic.
  Proof. destruct P1_ok as [p Hp]. rewrite (gens_create_ok E n api p Hp). discriminate. Qed.

  Lemma gens_create_len n api g : gens_create E n api = Ok g -> length (g_values E g) = n.
  Proof. intros H. apply gens_create_inv in H as [-> _]. apply create_generators_length. Qed.

  Lemma calculate_domain_np pk Q1 H header api : calculate_domain E pk Q1 H header api <> Panic.
  Proof. unfold calculate_domain. apply hash_to_scalar_np. Qed.

  Lemma core_verify_np pk s ms g header api : core_verify E pk s ms g header api <> Panic.
  Proof.
    unfold core_verify. destruct (negb (Nat.eqb (length (g_values E g)) (length ms + 1))) eqn:Hc; [discriminate|].
    apply negb_false_iff, Nat.eqb_eq in Hc.
    np; try (apply index_np; lia); try apply calculate_domain_np.
  Qed.

  Theorem no_panic_verify s pk msgs header : verify E s pk msgs header <> Panic.
  Proof.
    unfold verify. np; try apply messages_to_scalars_np; try apply gens_create_np; apply core_verify_np.
  Qed.

  Lemma proof_challenge_calculate_np ir di dm ph api : proof_challenge_calculate E ir di dm ph api <> Panic.
  Proof. unfold proof_challenge_calculate. np. apply hash_to_scalar_np. Qed.

  Lemma core_proof_verify_np pk p g header ph dm di api : core_proof_verify E pk p g header ph dm di api <> Panic.
  Proof.
    unfold core_proof_verify. apply bind_not_panic.
    2:{ intros ir _. np. apply proof_challenge_calculate_np. }
    unfold proof_verify_init.
    destruct (g1_eqb P _ _ || _ || _)%bool; [discriminate|].
    destruct (existsb _ di) eqn:Hex; [discriminate|].
    destruct (negb (Nat.eqb (length dm) (length di))) eqn:Hdm; [discriminate|].
    destruct (negb (Nat.eqb (length (g_values E g)) _)) eqn:Hg; [discriminate|].
    apply negb_false_iff, Nat.eqb_eq in Hg.
    rewrite existsb_ge_false in Hex.
    assert (HH : length (skipn 1 (g_values E g)) = (length (p_m_cap E p) + length di)%nat)
      by (rewrite skipn_length; lia).
    np; try (apply index_np; lia); try apply calculate_domain_np.
    - apply get_at_np. intros y Hy. unfold len. rewrite HH. exact (Hex y Hy).
    - apply slice_np; [lia|].
      pose proof (remaining_length_ge (length (p_m_cap E p) + length di) di). lia.
    - apply get_at_np. intros y Hy. unfold len. rewrite HH.
      match goal with Hs : slice _ 0 _ = Ok ?v |- _ => apply slice_inv in Hs as [_ [_ ->]] end.
      unfold sub in Hy. apply firstn_In' in Hy. cbn [skipn] in Hy.
      apply remaining_In in Hy as [Hy _]. exact Hy.
  Qed.

  Theorem no_panic_proof_verify p pk dmsgs idx header ph : proof_verify E p pk dmsgs idx header ph <> Panic.
  Proof.
    unfold proof_verify. np; try apply messages_to_scalars_np; try apply gens_create_np; apply core_proof_verify_np.
  Qed.

  Lemma prepare_parameters_np m cm a b spb api : prepare_parameters E m cm a b spb api <> Panic.
  Proof. unfold prepare_parameters. np; try apply messages_to_scalars_np; apply gens_create_np. Qed.

  Theorem no_panic_verify_blind_sign s pk header msgs cmsgs spb :
    verify_blind_sign E s pk header msgs cmsgs spb <> Panic.
  Proof. unfold verify_blind_sign. np; [apply prepare_parameters_np|apply core_verify_np]. Qed.

  Lemma uadd_np a b : a + b <= usize_max -> uadd a b <> Panic.
  Proof. intros H. unfold uadd. destruct (N.leb_spec (a + b) usize_max); [discriminate|lia]. Qed.

  Lemma checked_sub_some a b r : checked_sub a b = Some r -> r = a - b /\ b <= a.
  Proof. unfold checked_sub. destruct (N.leb_spec b a) as [Hle|Hgt]; intros HH; inversion HH; auto. Qed.

  (* lists held in memory have fewer than 2^63 elements (Rust: at most isize::MAX bytes) *)
  Definition fits (n : nat) : Prop := N.of_nat n < 2 ^ 62.

  Theorem no_panic_blind_proof_verify p pk header ph L dmsgs dcmsgs idx cidx :
    fits (length (option_default [] idx)) -> fits (length (option_default [] cidx)) ->
    fits (length (p_m_cap E p)) ->
    blind_proof_verify E p pk header ph L dmsgs dcmsgs idx cidx <> Panic.
  Proof.
    unfold fits. intros F1 F2 F3. unfold blind_proof_verify.
    set (di := sort_dedup (option_default [] idx)). set (dci := sort_dedup (option_default [] cidx)).
    assert (Hdi : len di <= len (option_default [] idx)).
    { unfold len, di. pose proof (sort_dedup_length (option_default [] idx)). lia. }
    assert (Hdci : len dci <= len (option_default [] cidx)).
    { unfold len, dci. pose proof (sort_dedup_length (option_default [] cidx)). lia. }
    unfold len in *.
    apply bind_not_panic; [apply try_opt_not_panic|]. intros m1 Hm1.
    apply bind_not_panic; [apply try_opt_not_panic|]. intros M HM.
    destruct (checked_sub _ 1) as [m1'|] eqn:E1; cbn in Hm1; [|discriminate]. inversion Hm1; subst m1'; clear Hm1.
    destruct (checked_sub m1 _) as [M'|] eqn:E2; cbn in HM; [|discriminate]. inversion HM; subst M'; clear HM.
    apply checked_sub_some in E1 as [-> H1]. apply checked_sub_some in E2 as [-> H2].
    destruct (existsb _ dci) eqn:Hex; [discriminate|]. rewrite existsb_ge_false in Hex.
    assert (Hpow : 2 ^ 62 = 4611686018427387904) by reflexivity.
    unfold len in *.
    apply bind_not_panic; [apply uadd_np; unfold usize_max; lia|]. intros L1 _.
    apply bind_not_panic; [apply uadd_np; unfold usize_max; lia|]. intros M1 _.
    apply bind_not_panic; [apply prepare_parameters_np|]. intros [ms g] _.
    apply bind_not_panic; [|intros; apply core_proof_verify_np].
    apply mapM_not_panic. intros j Hj. specialize (Hex j Hj).
    apply bind_not_panic; [apply uadd_np; unfold usize_max; lia|]. intros a Ha.
    unfold uadd in Ha. destruct (N.leb_spec (j + option_default 0 L) usize_max); inversion Ha; subst.
    apply uadd_np. unfold usize_max. lia.
  Qed.

  Lemma calculate_blind_challenge_np C Cbar gens api : calculate_blind_challenge E C Cbar gens api <> Panic.
  Proof. unfold calculate_blind_challenge. np. apply hash_to_scalar_np. Qed.

  Lemma core_commit_verify_np C z bg api : core_commit_verify E C z bg api <> Panic.
  Proof.
    unfold core_commit_verify. apply bind_not_panic; [apply try_opt_not_panic|]. intros bg' Hbg.
    unfold get_range in Hbg. destruct (_ && _)%bool eqn:Hc; cbn in Hbg; [|discriminate].
    inversion Hbg; subst; clear Hbg. apply andb_true_iff in Hc as [_ Hc]. apply Nat.leb_le in Hc.
    assert (Hl : length (sub bg 0 (length (z_m_cap E z) + 1)) = (length (z_m_cap E z) + 1)%nat)
      by (rewrite sub_length; lia).
    np; try (apply index_np; lia); try (apply slice_from_np; lia); apply calculate_blind_challenge_np.
  Qed.

  Theorem no_panic_deserialize_and_validate_commit cwp bg api :
    deserialize_and_validate_commit E cwp bg api <> Panic.
  Proof.
    unfold deserialize_and_validate_commit. np; [apply no_panic_commitment_from_bytes|apply core_commit_verify_np].
  Qed.

  Theorem no_panic_blind_sign sk pk cwp header msgs : blind_sign E sk pk cwp header msgs <> Panic.
  Proof.
    unfold blind_sign.
    apply bind_not_panic; [np|]. intros M _.
    apply bind_not_panic; [apply gens_create_np|]. intros g Hg.
    apply bind_not_panic; [apply gens_create_np|]. intros bg Hbg.
    apply gens_create_len in Hg, Hbg.
    apply bind_not_panic; [apply no_panic_deserialize_and_validate_commit|]. intros C _.
    apply bind_not_panic; [apply messages_to_scalars_np|]. intros ms _.
    apply bind_not_panic.
    - unfold calculate_b. np. apply index_np. lia.
    - intros B _. unfold finalize_blind_sign.
      np; try (apply index_np; lia); try (apply slice_from_np; lia); try apply calculate_domain_np;
        try apply hash_to_scalar_np.
      unfold usub, len. destruct (N.leb_spec 1 (N.of_nat (length (g_values E bg)))); [discriminate|lia].
  Qed.

  Lemma in_remaining_lt n idx y : In y (remaining n idx) -> y < N.of_nat n.
  Proof. intros H. apply remaining_In in H. tauto. Qed.

  Lemma core_proof_gen_np pk s g ms idx header ph api rho :
    (1 <= length (g_values E g))%nat -> core_proof_gen E pk s g ms idx header ph api rho <> Panic.
  Proof.
    intros Hg. unfold core_proof_gen.
    apply bind_not_panic.
    { unfold usub, len. destruct (N.leb_spec 1 (N.of_nat (length (g_values E g)))); [discriminate|lia]. }
    intros glen1 Hgl. unfold usub, len in Hgl.
    destruct (N.leb_spec 1 (N.of_nat (length (g_values E g)))); inversion Hgl; subst; clear Hgl.
    destruct (_ <? _) eqn:Hlt; [discriminate|]. apply N.ltb_ge in Hlt.
    set (di := sort_dedup idx).
    destruct (Nat.ltb (length ms) (length di)) eqn:HR; [discriminate|]. apply Nat.ltb_ge in HR.
    destruct (existsb _ di) eqn:Hex; [discriminate|]. rewrite existsb_ge_false in Hex.
    assert (Hrem : (length (remaining (length ms) di) + length di = length ms)%nat).
    { apply remaining_length; [apply strictly_sorted_NoDup, sort_dedup_sorted|exact Hex]. }
    apply bind_not_panic; [apply get_at_np; exact Hex|]. intros dm Hdm.
    apply bind_not_panic; [apply get_at_np; intros y Hy; apply in_remaining_lt in Hy; exact Hy|]. intros um Hum.
    destruct (negb (Nat.eqb (length rho) _)) eqn:Hrho; [discriminate|].
    apply negb_false_iff, Nat.eqb_eq in Hrho.
    assert (Hum' : length um = length (remaining (length ms) di)).
    { destruct (get_at_ok ms (remaining (length ms) di)) as [r [Hr Hl]].
      - intros y Hy; apply in_remaining_lt in Hy; exact Hy.
      - rewrite Hr in Hum. inversion Hum; subst. exact Hl. }
    apply bind_not_panic.
    - unfold proof_init.
      destruct (negb (Nat.eqb (length rho) _)); [discriminate|].
      destruct (negb (Nat.eqb (length (g_values E g)) (length ms + 1))) eqn:Hgl; [discriminate|].
      apply negb_false_iff, Nat.eqb_eq in Hgl.
      np; try (apply index_np; lia); try apply calculate_domain_np; try (apply slice_np; lia).
      apply get_at_np. intros y Hy. unfold len. rewrite skipn_length, Hgl.
      apply in_remaining_lt in Hy. lia.
    - intros ir _. apply bind_not_panic; [apply proof_challenge_calculate_np|]. intros ch _.
      unfold proof_finalize.
      np; try (apply index_np; lia); try (apply slice_np; lia).
  Qed.

  Theorem no_panic_proof_gen pk sigb header ph msgs idx rho : proof_gen E pk sigb header ph msgs idx rho <> Panic.
  Proof.
    unfold proof_gen. np; try apply no_panic_sig_from_bytes; try apply messages_to_scalars_np; try apply gens_create_np.
    apply core_proof_gen_np.
    match goal with H : gens_create E _ _ = Ok _ |- _ => apply gens_create_len in H; lia end.
  Qed.

  Theorem no_panic_blind_proof_gen pk sigb header ph msgs cmsgs idx cidx spb rho :
    blind_proof_gen E pk sigb header ph msgs cmsgs idx cidx spb rho <> Panic.
  Proof.
    unfold blind_proof_gen. apply bind_not_panic; [apply no_panic_sig_from_bytes|]. intros s _.
    np. { apply prepare_parameters_np. }
    apply core_proof_gen_np.
    match goal with H : prepare_parameters E _ _ _ _ _ _ = Ok _ |- _ => unfold prepare_parameters in H end.
    repeat match goal with
           | H : bind ?x _ = Ok _ |- _ => apply bind_ok in H as [? [? H]]
           end.
    match goal with H : Ok _ = Ok _ |- _ => inversion H; subst; clear H end.
    cbn [g_values]. rewrite app_length.
    match goal with H : gens_create E (length _ + 1) _ = Ok _ |- _ => apply gens_create_len in H; lia end.
  Qed.

  Theorem no_panic_update_signature s sk old_m new_m ui n : update_signature E s sk old_m new_m ui n <> Panic.
  Proof.
    unfold update_signature.
    apply bind_not_panic; [apply try_opt_not_panic|]. intros n1 Hn1.
    unfold checked_add in Hn1. destruct (N.leb_spec (n + 1) usize_max); cbn in Hn1; inversion Hn1; subst; clear Hn1.
    destruct (n <=? ui) eqn:Hui; [discriminate|]. apply N.leb_gt in Hui.
    apply bind_not_panic; [apply gens_create_np|]. intros g Hg. apply gens_create_len in Hg.
    apply bind_not_panic; [apply uadd_np; lia|]. intros ui1 _.
    np; try apply hash_to_scalar_np; try (apply slice_from_np; lia).
  Qed.

  (* ---------------------------------------------------------------- work bounds *)
  (* number of generators requested by each front end, as a function of the inputs; the
     correspondence check compares these counts with the hook's generator-count log *)
  Definition gens_verify (msgs : option (list bytes)) : nat := (length (option_default [] msgs) + 1)%nat.
  Definition gens_proof_verify (p : pok E) (idx : option (list N)) : nat :=
    (length (p_m_cap E p) + length (sort_dedup (option_default [] idx)) + 1)%nat.

  Theorem work_bound_proof_verify p idx :
    (gens_proof_verify p idx <= length (p_m_cap E p) + length (option_default [] idx) + 1)%nat.
  Proof. unfold gens_proof_verify. pose proof (sort_dedup_length (option_default [] idx)). lia. Qed.

  (* blind_proof_verify: when it gets as far as creating generators, L + 1 + M + 1 of them, and
     L + M + 1 = R1 + R2 + U, which is bounded by the sizes of the index lists and of the proof *)
  Theorem work_bound_blind_proof_verify (p : pok E) (L : option N) idx cidx m1 M :
    checked_sub (len (sort_dedup (option_default [] idx)) + len (sort_dedup (option_default [] cidx)) +
                 len (p_m_cap E p)) 1 = Some m1 ->
    checked_sub m1 (option_default 0 L) = Some M ->
    option_default 0 L + 1 + (M + 1) <=
      len (option_default [] idx) + len (option_default [] cidx) + len (p_m_cap E p) + 1.
  Proof.
    intros H1 H2. apply checked_sub_some in H1 as [-> H1]. apply checked_sub_some in H2 as [-> H2].
    pose proof (sort_dedup_length (option_default [] idx)). pose proof (sort_dedup_length (option_default [] cidx)).
    unfold len in *. lia.
  Qed.

  (* blind_sign: M + 1 blind generators with M <= |commitment_with_proof| / 32 *)
  Theorem work_bound_blind_sign (cwp : bytes) m1 m2 :
    checked_sub (len cwp) 48 = Some m1 -> checked_sub m1 32 = Some m2 -> m2 / 32 <= len cwp / 32.
  Proof.
    intros H1 H2. apply checked_sub_some in H1 as [-> H1]. apply checked_sub_some in H2 as [-> H2].
    apply N.div_le_mono; lia.
  Qed.
End NP.
