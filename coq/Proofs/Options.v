(* C04 / C11: how the optional arguments of the verifier and of prepare_parameters are read (for all inputs).
   - proof_verify never accepts when the number of disclosed messages differs from the number of DISTINCT disclosed indexes;
     in particular a message list without an index list (or the converse) is refused, whatever the proof;
   - prepare_parameters returns create(n, id) ++ create(m, "BLIND_" || id) with id the api_id, empty when ABSENT. *)
From ZK Require Import Blind BaseLemmas ModelLemmas NoPanic.
From Coq Require Import List Lia.
Import ListNotations.

Section O.
  Context (E : env).

  Theorem proof_verify_lists_disagree p pk dmsgs idx header ph :
    length (option_default [] dmsgs) <> length (sort_dedup (option_default [] idx)) ->
    proof_verify E p pk dmsgs idx header ph <> Ok tt.
  Proof.
    intros Hne. unfold proof_verify.
    destruct (messages_to_scalars E (option_default [] dmsgs) (c_api_id (cs E))) as [dm| | |] eqn:Em; cbn [bind]; try discriminate.
    apply messages_to_scalars_len in Em.
    destruct (gens_create E _ _) as [g| | |]; cbn [bind]; try discriminate.
    unfold core_proof_verify, proof_verify_init.
    destruct (_ || _ || _)%bool; cbn [bind]; [discriminate|].
    destruct (existsb _ _); cbn [bind]; [discriminate|].
    destruct (Nat.eqb_spec (length dm) (length (sort_dedup (option_default [] idx)))) as [He|He]; cbn [negb bind]; [|discriminate].
    exfalso. apply Hne. rewrite <- Em. exact He.
  Qed.

  Corollary proof_verify_messages_without_indexes p pk m ms header ph :
    proof_verify E p pk (Some (m :: ms)) None header ph <> Ok tt.
  Proof. apply proof_verify_lists_disagree. cbn. discriminate. Qed.

  Corollary proof_verify_indexes_without_messages p pk i idx header ph :
    proof_verify E p pk None (Some (i :: idx)) header ph <> Ok tt.
  Proof.
    apply proof_verify_lists_disagree. cbn [option_default length].
    intros H. symmetry in H. apply length_zero_iff_nil in H.
    assert (Hin : In i (sort_dedup (i :: idx))) by (apply sort_dedup_In; left; reflexivity).
    rewrite H in Hin. exact Hin.
  Qed.

  Theorem prepare_parameters_gens msgs cmsgs gen_n blind_n spb api_id ms g :
    prepare_parameters E msgs cmsgs gen_n blind_n spb api_id = Ok (ms, g) ->
    g_values E g = create_generators E gen_n (option_default [] api_id) ++
                   create_generators E blind_n (blind_prefix ++ option_default [] api_id).
  Proof.
    unfold prepare_parameters. intros H.
    destruct (messages_to_scalars E (option_default [] msgs) _); cbn [bind] in H; try discriminate.
    destruct (messages_to_scalars E (option_default [] cmsgs) _); cbn [bind] in H; try discriminate.
    unfold gens_create in H.
    destruct (unwrap _); cbn [bind] in H; try discriminate.
    inversion H. reflexivity.
  Qed.
End O.
