(* C09: every codec of the BBS model is a bijection between objects and accepted octet strings:
   dec (enc x) = Ok x, dec b = Ok x -> enc x = b, and the strictness clauses (wrong lengths, trailing
   bytes, identity where forbidden, zero exponent). *)
From ZK Require Import Laws BaseLemmas ModelLemmas SignProofs.
Open Scope N_scope.

(* ---------------------------------------------------------------- chunks_exact *)
Lemma chunks_fuel_flat_map {A B} (f : A -> list B) n (l : list A) fuel :
  (0 < n)%nat -> (forall x, length (f x) = n) -> (length l <= fuel)%nat ->
  chunks_fuel fuel n (flat_map f l) = map f l.
Proof.
  intros Hn Hf. revert l. induction fuel as [|fuel IH]; intros l Hl.
  - destruct l; [reflexivity|cbn in Hl; lia].
  - destruct l as [|x l]; cbn [flat_map map chunks_fuel].
    + cbn. destruct n; [lia|reflexivity].
    + assert (Hle : (n <= length (f x ++ flat_map f l))%nat) by (rewrite app_length, Hf; lia).
      apply Nat.leb_le in Hle. rewrite Hle.
      rewrite firstn_app, Hf, Nat.sub_diag, firstn_all2 by (rewrite Hf; lia). cbn [firstn]. rewrite app_nil_r.
      rewrite skipn_app, Hf, Nat.sub_diag, skipn_all2 by (rewrite Hf; lia). cbn [skipn app].
      f_equal. apply IH. cbn in Hl. lia.
Qed.

Lemma flat_map_length_const {A B} (f : A -> list B) n l : (forall x, length (f x) = n) ->
  length (flat_map f l) = (length l * n)%nat.
Proof. intros Hf. induction l as [|x l IH]; cbn; [reflexivity|]. rewrite app_length, Hf, IH. lia. Qed.

Lemma chunks_exact_flat_map {A B} (f : A -> list B) n (l : list A) :
  (0 < n)%nat -> (forall x, length (f x) = n) -> chunks_exact n (flat_map f l) = map f l.
Proof.
  intros Hn Hf. unfold chunks_exact. apply chunks_fuel_flat_map; try assumption.
  rewrite (flat_map_length_const f n) by assumption. nia.
Qed.

Lemma chunks_fuel_concat {A} n (l : list A) fuel : (0 < n)%nat -> (length l <= fuel)%nat ->
  Nat.modulo (length l) n = 0%nat ->
  concat (chunks_fuel fuel n l) = l /\ Forall (fun c => length c = n) (chunks_fuel fuel n l).
Proof.
  intros Hn. revert l. induction fuel as [|fuel IH]; intros l Hl Hm.
  - destruct l; [cbn; auto|cbn in Hl; lia].
  - cbn [chunks_fuel]. destruct (Nat.leb_spec n (length l)) as [Hle|Hgt].
    + assert (Hm' : Nat.modulo (length (skipn n l)) n = 0%nat).
      { rewrite skipn_length.
        apply Nat.mod_divides in Hm as [k Hk]; [|lia].
        apply Nat.mod_divides; [lia|]. exists (k - 1)%nat. nia. }
      destruct (IH (skipn n l)) as [Hc Hf]; [rewrite skipn_length; lia|assumption|].
      cbn [concat]. rewrite Hc, firstn_skipn. split; [reflexivity|].
      constructor; [rewrite firstn_length; lia|assumption].
    + assert (length l = 0%nat).
      { apply Nat.mod_divides in Hm as [k Hk]; [|lia]. destruct k; [lia|nia]. }
      destruct l; [cbn; auto|cbn in *; lia].
Qed.

Lemma chunks_exact_concat {A} n (l : list A) : (0 < n)%nat -> Nat.modulo (length l) n = 0%nat ->
  concat (chunks_exact n l) = l /\ Forall (fun c => length c = n) (chunks_exact n l).
Proof. intros. apply chunks_fuel_concat; auto. Qed.

Section Codec.
  Context (E : env) (LW : Laws E).
  Notation S := (SO E).
  Notation P := (PR E).

  Lemma mapM_f_of_be_enc (l : list (F S)) :
    mapM (fun ch => try_opt (f_of_be S ch)) (map (f_to_be S) l) = Ok l.
  Proof.
    induction l as [|x l IH]; cbn; [reflexivity|]. rewrite (L_f_dec_enc E LW). cbn. rewrite IH. reflexivity.
  Qed.

  Lemma scalars_of_chunks_enc (l : list (F S)) : scalars_of_chunks E (serialize_scalars E l) = Ok l.
  Proof.
    unfold scalars_of_chunks, serialize_scalars.
    rewrite chunks_exact_flat_map; [apply mapM_f_of_be_enc|lia|apply (L_f_enc_len E LW)].
  Qed.

  Lemma mapM_f_of_be_canon (chs : list bytes) (l : list (F S)) :
    mapM (fun ch => try_opt (f_of_be S ch)) chs = Ok l -> flat_map (f_to_be S) l = concat chs.
  Proof.
    revert l; induction chs as [|ch chs IH]; cbn; intros l H.
    - inversion H; reflexivity.
    - destruct (f_of_be S ch) as [x|] eqn:Ex; cbn in H; [|discriminate].
      destruct (mapM _ chs) as [r| | |]; cbn in H; try discriminate. inversion H; subst. cbn.
      rewrite (L_f_enc_dec E LW _ _ Ex). f_equal. apply IH. reflexivity.
  Qed.

  Lemma scalars_of_chunks_canon b l : Nat.modulo (length b) 32 = 0%nat ->
    scalars_of_chunks E b = Ok l -> serialize_scalars E l = b.
  Proof.
    intros Hm H. unfold scalars_of_chunks in H. apply mapM_f_of_be_canon in H.
    unfold serialize_scalars. rewrite H. apply chunks_exact_concat; [lia|assumption].
  Qed.

  Lemma serialize_scalars_app a b : serialize_scalars E (a ++ b) = serialize_scalars E a ++ serialize_scalars E b.
  Proof. unfold serialize_scalars. apply flat_map_app. Qed.

  Lemma serialize_scalars_one x : serialize_scalars E [x] = f_to_be S x.
  Proof. unfold serialize_scalars. cbn [flat_map]. apply app_nil_r. Qed.

  Lemma serialize_scalars_length l : length (serialize_scalars E l) = (length l * 32)%nat.
  Proof. apply flat_map_length_const. apply (L_f_enc_len E LW). Qed.

  (* ---------------------------------------------------------------- secret key / blinding factor *)
  Theorem sk_codec x b :
    sk_from_bytes E (sk_to_bytes E x) = Ok x /\
    (sk_from_bytes E b = Ok x -> sk_to_bytes E x = b) /\
    (length b <> 32%nat -> sk_from_bytes E b = Err).
  Proof.
    unfold sk_from_bytes, sk_to_bytes. repeat split.
    - rewrite (L_f_enc_len E LW). cbn. rewrite (L_f_dec_enc E LW). reflexivity.
    - destruct (negb _); [discriminate|]. destruct (f_of_be S b) eqn:Eb; cbn; intros H; inversion H; subst.
      apply (L_f_enc_dec E LW); assumption.
    - intros H. apply Nat.eqb_neq in H. rewrite H. reflexivity.
  Qed.

  Theorem blind_codec x b :
    blind_from_bytes E (f_to_be S x) = Ok x /\
    (blind_from_bytes E b = Ok x -> f_to_be S x = b) /\
    (length b <> 32%nat -> blind_from_bytes E b = Err).
  Proof. exact (sk_codec x b). Qed.

  (* ---------------------------------------------------------------- public key *)
  Lemma g2_eqb_neq a b : a <> b -> g2_eqb P a b = false.
  Proof. intros H. destruct (g2_eqb P a b) eqn:Eq; [|reflexivity]. apply (L_g2_eqb E LW) in Eq. contradiction. Qed.
  Lemma g2_eqb_refl a : g2_eqb P a a = true.
  Proof. apply (L_g2_eqb E LW). reflexivity. Qed.

  Theorem pk_codec pk b :
    (pk <> g2_zero P -> pk_from_bytes E (pk_to_bytes E pk) = Ok pk) /\
    (pk_from_bytes E b = Ok pk -> pk_to_bytes E pk = b /\ pk <> g2_zero P) /\
    (length b <> 96%nat -> pk_from_bytes E b = Err) /\
    pk_from_bytes E (pk_to_bytes E (g2_zero P)) = Err.
  Proof.
    unfold pk_from_bytes, pk_to_bytes. repeat split.
    - intros Hnz. rewrite (L_g2_enc_len E LW). cbn. rewrite (L_g2_dec_enc E LW). cbn.
      rewrite g2_eqb_neq by assumption. reflexivity.
    - destruct (negb _); [discriminate|]. destruct (g2_dec P b) eqn:Eb; cbn in H; [|discriminate].
      destruct (g2_eqb P g (g2_zero P)); inversion H; subst. apply (L_g2_enc_dec E LW); assumption.
    - destruct (negb _); [discriminate|]. destruct (g2_dec P b) eqn:Eb; cbn in H; [|discriminate].
      destruct (g2_eqb P g (g2_zero P)) eqn:Ez; inversion H; subst.
      intros C. subst. rewrite g2_eqb_refl in Ez. discriminate.
    - intros H. apply Nat.eqb_neq in H. rewrite H. reflexivity.
    - rewrite (L_g2_enc_len E LW). cbn. rewrite (L_g2_dec_enc E LW). cbn. rewrite g2_eqb_refl. reflexivity.
  Qed.

  Theorem pk_xy_codec pk x y :
    (pk <> g2_zero P -> pk_from_xy E (fst (pk_to_xy E pk)) (snd (pk_to_xy E pk)) = Ok pk) /\
    (pk_from_xy E x y = Ok pk -> pk_to_xy E pk = (x, y)).
  Proof.
    unfold pk_from_xy, pk_to_xy. split.
    - intros Hnz. cbn [fst snd].
      rewrite firstn_length, skipn_length, (L_g2u_enc_len E LW).
      change (negb (Nat.eqb (Nat.min 96 192) 96 && Nat.eqb (192 - 96) 96)) with false. cbn iota.
      rewrite firstn_skipn, (L_g2u_dec_enc E LW). cbn [try_opt bind]. rewrite g2_eqb_neq by assumption. reflexivity.
    - destruct (Nat.eqb (length x) 96) eqn:Ex; cbn [andb negb]; [|discriminate].
      destruct (Nat.eqb (length y) 96) eqn:Ey; cbn [andb negb]; [|discriminate].
      apply Nat.eqb_eq in Ex, Ey.
      destruct (g2_dec_unc P (x ++ y)) eqn:Eb; cbn [try_opt bind]; [|discriminate].
      destruct (g2_eqb P g (g2_zero P)); intros H; inversion H; subst.
      rewrite (L_g2u_enc_dec E LW _ _ Eb).
      rewrite firstn_app, Ex, Nat.sub_diag, firstn_all2 by lia. rewrite firstn_O, app_nil_r.
      rewrite skipn_app, Ex, Nat.sub_diag, skipn_all2 by lia. reflexivity.
  Qed.

  (* ---------------------------------------------------------------- signature strictness *)
  Theorem sig_strict b A e :
    (length b <> 80%nat -> sig_from_bytes E b = Err) /\
    sig_from_bytes E (sig_to_bytes E {| sig_A := g1_zero P; sig_e := e |}) = Err /\
    sig_from_bytes E (sig_to_bytes E {| sig_A := A; sig_e := f0 S |}) = Err.
  Proof.
    unfold sig_from_bytes, sig_to_bytes. cbn [sig_A sig_e]. repeat split.
    - intros H. apply Nat.eqb_neq in H. rewrite H. reflexivity.
    - rewrite app_length, (L_g1_enc_len E LW), (L_f_enc_len E LW). cbn [Nat.add Nat.eqb negb].
      rewrite sub_app_l by (rewrite (L_g1_enc_len E LW); reflexivity).
      rewrite (L_g1_dec_enc E LW). cbn [try_opt bind].
      rewrite sub_app_r by (rewrite ?(L_g1_enc_len E LW), ?(L_f_enc_len E LW); reflexivity).
      rewrite (L_f_dec_enc E LW). cbn [try_opt bind]. rewrite (g1_eqb_refl E LW). reflexivity.
    - rewrite app_length, (L_g1_enc_len E LW), (L_f_enc_len E LW). cbn [Nat.add Nat.eqb negb].
      rewrite sub_app_l by (rewrite (L_g1_enc_len E LW); reflexivity).
      rewrite (L_g1_dec_enc E LW). cbn [try_opt bind].
      rewrite sub_app_r by (rewrite ?(L_g1_enc_len E LW), ?(L_f_enc_len E LW); reflexivity).
      rewrite (L_f_dec_enc E LW). cbn [try_opt bind]. rewrite (feqb_refl E LW), orb_true_r. reflexivity.
  Qed.

  (* ---------------------------------------------------------------- proof *)
  Definition pok_points_ok (p : pok E) : Prop :=
    p_Abar E p <> g1_zero P /\ p_Bbar E p <> g1_zero P /\ p_D E p <> g1_zero P.

  Lemma pok_to_bytes_length p : length (pok_to_bytes E p) = (272 + 32 * length (p_m_cap E p))%nat.
  Proof.
    unfold pok_to_bytes. rewrite !app_length, !(L_g1_enc_len E LW), !(L_f_enc_len E LW), serialize_scalars_length. lia.
  Qed.

  Ltac lens := rewrite ?app_length, ?(L_g1_enc_len E LW), ?(L_f_enc_len E LW), ?serialize_scalars_length; try lia.

  Theorem pok_codec_roundtrip p : pok_points_ok p ->
    pok_from_bytes E (pok_to_bytes E p) = Ok p /\
    length (pok_to_bytes E p) = (272 + 32 * length (p_m_cap E p))%nat.
  Proof.
    intros [HA [HB HD]]. split; [|apply pok_to_bytes_length].
    unfold pok_from_bytes. rewrite pok_to_bytes_length.
    replace (Nat.ltb (272 + 32 * length (p_m_cap E p)) 272) with false by (symmetry; apply Nat.ltb_ge; lia).
    replace (272 + 32 * length (p_m_cap E p) - 272)%nat with (length (p_m_cap E p) * 32)%nat by lia.
    rewrite Nat.mod_mul by lia. cbn [orb negb Nat.eqb].
    destruct p as [Abar Bbar D ec r1 r3 mc ch]. unfold pok_to_bytes. cbn [p_Abar p_Bbar p_D p_e_cap p_r1_cap p_r3_cap p_m_cap p_chal] in *.
    set (a0 := g1_enc P Abar). set (a1 := g1_enc P Bbar). set (a2 := g1_enc P D).
    set (s0 := f_to_be S ec). set (s1 := f_to_be S r1). set (s2 := f_to_be S r3).
    set (rest := serialize_scalars E mc ++ f_to_be S ch).
    assert (L0 : length a0 = 48%nat) by apply (L_g1_enc_len E LW).
    assert (L1 : length a1 = 48%nat) by apply (L_g1_enc_len E LW).
    assert (L2 : length a2 = 48%nat) by apply (L_g1_enc_len E LW).
    assert (M0 : length s0 = 32%nat) by apply (L_f_enc_len E LW).
    assert (M1 : length s1 = 32%nat) by apply (L_f_enc_len E LW).
    assert (M2 : length s2 = 32%nat) by apply (L_f_enc_len E LW).
    rewrite slice_ok by (rewrite ?app_length; lia).
    rewrite sub_app_l by lia. cbn [bind]. unfold a0 at 1. rewrite (L_g1_dec_enc E LW). cbn [try_opt bind].
    rewrite slice_ok by (rewrite ?app_length; lia).
    rewrite sub_shift by lia. rewrite L0. change (48 - 48)%nat with 0%nat. change (96 - 48)%nat with 48%nat.
    rewrite sub_app_l by lia. cbn [bind]. unfold a1 at 1. rewrite (L_g1_dec_enc E LW). cbn [try_opt bind].
    rewrite slice_ok by (rewrite ?app_length; lia).
    rewrite sub_shift by lia. rewrite L0. rewrite sub_shift by lia. rewrite L1.
    change (96 - 48 - 48)%nat with 0%nat. change (144 - 48 - 48)%nat with 48%nat.
    rewrite sub_app_l by lia. cbn [bind]. unfold a2 at 1. rewrite (L_g1_dec_enc E LW). cbn [try_opt bind].
    rewrite slice_ok by (rewrite ?app_length; lia).
    rewrite sub_shift by lia. rewrite L0. rewrite sub_shift by lia. rewrite L1. rewrite sub_shift by lia. rewrite L2.
    change (144 - 48 - 48 - 48)%nat with 0%nat. change (176 - 48 - 48 - 48)%nat with 32%nat.
    rewrite sub_app_l by lia. cbn [bind]. unfold s0 at 1. rewrite (L_f_dec_enc E LW). cbn [try_opt bind].
    rewrite slice_ok by (rewrite ?app_length; lia).
    rewrite sub_shift by lia. rewrite L0. rewrite sub_shift by lia. rewrite L1. rewrite sub_shift by lia. rewrite L2.
    rewrite sub_shift by lia. rewrite M0.
    change (176 - 48 - 48 - 48 - 32)%nat with 0%nat. change (208 - 48 - 48 - 48 - 32)%nat with 32%nat.
    rewrite sub_app_l by lia. cbn [bind]. unfold s1 at 1. rewrite (L_f_dec_enc E LW). cbn [try_opt bind].
    rewrite slice_ok by (rewrite ?app_length; lia).
    rewrite sub_shift by lia. rewrite L0. rewrite sub_shift by lia. rewrite L1. rewrite sub_shift by lia. rewrite L2.
    rewrite sub_shift by lia. rewrite M0. rewrite sub_shift by lia. rewrite M1.
    change (208 - 48 - 48 - 48 - 32 - 32)%nat with 0%nat. change (240 - 48 - 48 - 48 - 32 - 32)%nat with 32%nat.
    rewrite sub_app_l by lia. cbn [bind]. unfold s2 at 1. rewrite (L_f_dec_enc E LW). cbn [try_opt bind].
    rewrite slice_from_ok by (rewrite ?app_length; lia). cbn [bind].
    replace (skipn 240 (a0 ++ a1 ++ a2 ++ s0 ++ s1 ++ s2 ++ rest)) with rest.
    2:{ rewrite !app_assoc. rewrite skipn_app. rewrite skipn_all2 by (rewrite !app_length; lia).
        rewrite !app_length. replace (240 - _)%nat with 0%nat by lia. reflexivity. }
    unfold rest. rewrite <- (serialize_scalars_one ch), <- serialize_scalars_app.
    rewrite scalars_of_chunks_enc. cbn [bind]. rewrite pop_last_app. cbn [try_opt bind].
    rewrite !(g1_eqb_neq E LW) by assumption. reflexivity.
  Qed.

  Theorem pok_codec_canonical b p : pok_from_bytes E b = Ok p -> pok_to_bytes E p = b /\ pok_points_ok p.
  Proof.
    unfold pok_from_bytes.
    destruct (Nat.ltb (length b) 272 || _)%bool eqn:Hc; [discriminate|].
    apply orb_false_iff in Hc as [Hl Hm]. apply Nat.ltb_ge in Hl. apply negb_false_iff, Nat.eqb_eq in Hm.
    rewrite !slice_ok by lia. cbn [bind].
    destruct (g1_dec P (sub b 0 48)) as [Abar|] eqn:E0; cbn [try_opt bind]; [|discriminate].
    destruct (g1_dec P (sub b 48 96)) as [Bbar|] eqn:E1; cbn [try_opt bind]; [|discriminate].
    destruct (g1_dec P (sub b 96 144)) as [D|] eqn:E2; cbn [try_opt bind]; [|discriminate].
    destruct (f_of_be S (sub b 144 176)) as [ec|] eqn:E3; cbn [try_opt bind]; [|discriminate].
    destruct (f_of_be S (sub b 176 208)) as [r1|] eqn:E4; cbn [try_opt bind]; [|discriminate].
    destruct (f_of_be S (sub b 208 240)) as [r3|] eqn:E5; cbn [try_opt bind]; [|discriminate].
    rewrite slice_from_ok by lia. cbn [bind].
    destruct (scalars_of_chunks E (skipn 240 b)) as [ms| | |] eqn:E6; cbn [bind]; try discriminate.
    destruct (pop_last ms) as [[mc ch]|] eqn:E7; cbn [try_opt bind]; [|discriminate].
    destruct (g1_eqb P Abar _ || _ || _)%bool eqn:Ez; [discriminate|].
    intros H; inversion H; subst; clear H.
    apply orb_false_iff in Ez as [Ez EzD]. apply orb_false_iff in Ez as [EzA EzB].
    split; [|repeat split; apply (g1_eqb_false E LW); assumption].
    unfold pok_to_bytes. cbn [p_Abar p_Bbar p_D p_e_cap p_r1_cap p_r3_cap p_m_cap p_chal].
    rewrite (L_g1_enc_dec E LW _ _ E0), (L_g1_enc_dec E LW _ _ E1), (L_g1_enc_dec E LW _ _ E2).
    rewrite (L_f_enc_dec E LW _ _ E3), (L_f_enc_dec E LW _ _ E4), (L_f_enc_dec E LW _ _ E5).
    apply pop_last_some in E7. subst ms.
    assert (Hm' : Nat.modulo (length (skipn 240 b)) 32 = 0%nat).
    { rewrite skipn_length.
      apply Nat.mod_divides in Hm as [k Hk]; [|lia]. apply Nat.mod_divides; [lia|]. exists (k + 1)%nat. lia. }
    apply (scalars_of_chunks_canon _ _ Hm') in E6. rewrite serialize_scalars_app in E6.
    rewrite serialize_scalars_one in E6. rewrite E6.
    rewrite !app_assoc. rewrite <- !app_assoc.
    rewrite (app_assoc (sub b 0 48)), sub_sub_split by lia.
    rewrite (app_assoc (sub b 0 96)), sub_sub_split by lia.
    rewrite (app_assoc (sub b 0 144)), sub_sub_split by lia.
    rewrite (app_assoc (sub b 0 176)), sub_sub_split by lia.
    rewrite (app_assoc (sub b 0 208)), sub_sub_split by lia.
    unfold sub. cbn [skipn]. rewrite Nat.sub_0_r. apply firstn_skipn.
  Qed.

  Theorem pok_strict b :
    (forall k, length b <> (272 + 32 * k)%nat) -> pok_from_bytes E b = Err.
  Proof.
    intros H. unfold pok_from_bytes.
    destruct (Nat.ltb (length b) 272 || _)%bool eqn:Hc; [reflexivity|]. exfalso.
    apply orb_false_iff in Hc as [Hl Hm]. apply Nat.ltb_ge in Hl. apply negb_false_iff, Nat.eqb_eq in Hm.
    apply Nat.mod_divides in Hm as [k Hk]; [|lia]. apply (H k). lia.
  Qed.

  Theorem pok_identity_rejected b p :
    pok_from_bytes E b = Ok p -> p_Abar E p <> g1_zero P /\ p_Bbar E p <> g1_zero P /\ p_D E p <> g1_zero P.
  Proof. intros H. apply pok_codec_canonical in H. apply H. Qed.

  (* ---------------------------------------------------------------- commitment proof / commitment *)
  Lemma zkpok_to_bytes_length z : length (zkpok_to_bytes E z) = (64 + 32 * length (z_m_cap E z))%nat.
  Proof. unfold zkpok_to_bytes. rewrite !app_length, !(L_f_enc_len E LW), serialize_scalars_length. lia. Qed.

  Theorem zkpok_codec_roundtrip z : zkpok_from_bytes E (zkpok_to_bytes E z) = Ok z.
  Proof.
    unfold zkpok_from_bytes. rewrite zkpok_to_bytes_length.
    replace (Nat.ltb (64 + 32 * length (z_m_cap E z)) 64) with false by (symmetry; apply Nat.ltb_ge; lia).
    replace (64 + 32 * length (z_m_cap E z))%nat with ((2 + length (z_m_cap E z)) * 32)%nat by lia.
    rewrite Nat.mod_mul by lia. cbn [orb negb Nat.eqb].
    destruct z as [sc mc ch]. unfold zkpok_to_bytes. cbn [z_s_cap z_m_cap z_chal].
    assert (M0 : length (f_to_be S sc) = 32%nat) by apply (L_f_enc_len E LW).
    rewrite slice_ok by (rewrite ?app_length; lia). rewrite sub_app_l by lia. cbn [bind].
    rewrite (L_f_dec_enc E LW). cbn [try_opt bind].
    rewrite slice_from_ok by (rewrite ?app_length; lia). cbn [bind].
    rewrite skipn_app, skipn_all2 by lia. rewrite M0, Nat.sub_diag. cbn [skipn app].
    rewrite <- (serialize_scalars_one ch), <- serialize_scalars_app.
    rewrite scalars_of_chunks_enc. cbn [bind]. rewrite pop_last_app. reflexivity.
  Qed.

  Theorem zkpok_codec_canonical b z : zkpok_from_bytes E b = Ok z -> zkpok_to_bytes E z = b.
  Proof.
    unfold zkpok_from_bytes.
    destruct (Nat.ltb (length b) 64 || _)%bool eqn:Hc; [discriminate|].
    apply orb_false_iff in Hc as [Hl Hm]. apply Nat.ltb_ge in Hl. apply negb_false_iff, Nat.eqb_eq in Hm.
    rewrite slice_ok by lia. cbn [bind].
    destruct (f_of_be S (sub b 0 32)) as [sc|] eqn:E0; cbn [try_opt bind]; [|discriminate].
    rewrite slice_from_ok by lia. cbn [bind].
    destruct (scalars_of_chunks E (skipn 32 b)) as [ms| | |] eqn:E6; cbn [bind]; try discriminate.
    destruct (pop_last ms) as [[mc ch]|] eqn:E7; cbn [try_opt bind]; [|discriminate].
    intros H; inversion H; subst; clear H.
    unfold zkpok_to_bytes. cbn [z_s_cap z_m_cap z_chal].
    rewrite (L_f_enc_dec E LW _ _ E0). apply pop_last_some in E7. subst ms.
    assert (Hm' : Nat.modulo (length (skipn 32 b)) 32 = 0%nat).
    { rewrite skipn_length. apply Nat.mod_divides in Hm as [k Hk]; [|lia].
      apply Nat.mod_divides; [lia|]. exists (k - 1)%nat. lia. }
    apply (scalars_of_chunks_canon _ _ Hm') in E6. rewrite serialize_scalars_app in E6.
    rewrite serialize_scalars_one in E6. rewrite E6.
    unfold sub. cbn [skipn]. rewrite Nat.sub_0_r. apply firstn_skipn.
  Qed.

  Theorem zkpok_strict b : (forall k, length b <> (64 + 32 * k)%nat) -> zkpok_from_bytes E b = Err.
  Proof.
    intros H. unfold zkpok_from_bytes.
    destruct (Nat.ltb (length b) 64 || _)%bool eqn:Hc; [reflexivity|]. exfalso.
    apply orb_false_iff in Hc as [Hl Hm]. apply Nat.ltb_ge in Hl. apply negb_false_iff, Nat.eqb_eq in Hm.
    apply Nat.mod_divides in Hm as [k Hk]; [|lia]. apply (H (k - 2)%nat). lia.
  Qed.

  Theorem commitment_codec_roundtrip x :
    commitment_from_bytes E (commitment_to_bytes E x) = Ok x /\
    length (commitment_to_bytes E x) = (112 + 32 * length (z_m_cap E (cm_proof E x)))%nat.
  Proof.
    destruct x as [C z]. unfold commitment_from_bytes, commitment_to_bytes. cbn [cm_C cm_proof].
    assert (L0 : length (g1_enc P C) = 48%nat) by apply (L_g1_enc_len E LW).
    split; [|rewrite app_length, L0, zkpok_to_bytes_length; lia].
    replace (Nat.ltb _ 48) with false by (symmetry; apply Nat.ltb_ge; rewrite app_length; lia).
    rewrite slice_ok by (rewrite ?app_length; lia). rewrite sub_app_l by lia. cbn [bind].
    rewrite (L_g1_dec_enc E LW). cbn [try_opt bind].
    rewrite slice_from_ok by (rewrite ?app_length; lia). cbn [bind].
    rewrite skipn_app, skipn_all2 by lia. rewrite L0, Nat.sub_diag. cbn [skipn app].
    rewrite zkpok_codec_roundtrip. reflexivity.
  Qed.

  Theorem commitment_codec_canonical b x : commitment_from_bytes E b = Ok x -> commitment_to_bytes E x = b.
  Proof.
    unfold commitment_from_bytes. destruct (Nat.ltb (length b) 48) eqn:Hl; [discriminate|]. apply Nat.ltb_ge in Hl.
    rewrite slice_ok by lia. cbn [bind].
    destruct (g1_dec P (sub b 0 48)) as [C|] eqn:E0; cbn [try_opt bind]; [|discriminate].
    rewrite slice_from_ok by lia. cbn [bind].
    destruct (zkpok_from_bytes E (skipn 48 b)) as [z| | |] eqn:E1; cbn [bind]; try discriminate.
    intros H; inversion H; subst; clear H. unfold commitment_to_bytes. cbn [cm_C cm_proof].
    rewrite (L_g1_enc_dec E LW _ _ E0), (zkpok_codec_canonical _ _ E1).
    unfold sub. cbn [skipn]. rewrite Nat.sub_0_r. apply firstn_skipn.
  Qed.

  Theorem commitment_strict_len b x : commitment_from_bytes E b = Ok x -> exists k, length b = (112 + 32 * k)%nat.
  Proof.
    intros H. pose proof (commitment_codec_canonical _ _ H) as Hc.
    exists (length (z_m_cap E (cm_proof E x))). rewrite <- Hc. apply commitment_codec_roundtrip.
  Qed.
End Codec.
