(* C11: domain separation.  (1) finite-table obligations over the constants regenerated from
   src/bbsplus/ciphersuites.rs; (2) structure of the generator derivation: prefix independence, and
   "a repeated or shared generator is a collision of expand_message or of hash_to_curve on explicit
   distinct inputs". *)
From ZK Require Import Laws BaseLemmas ModelLemmas Consts.
Open Scope N_scope.

Definition Collision {A B} (f : A -> B) (x y : A) : Prop := x <> y /\ f x = f y.

(* ---------------------------------------------------------------- (1) the constants *)
Definition blind_pfx : bytes := [66;76;73;78;68;95].   (* "BLIND_" = Blind.blind_prefix *)

(* the six interface identifiers: per suite the plain api_id, the blind api_id and the blind-generator id *)
Definition interface_ids (s : suite) : list bytes :=
  [c_api_id s; c_api_id_blind s; blind_pfx ++ c_api_id_blind s].
Definition all_interface_ids : list bytes := interface_ids sha_suite ++ interface_ids shake_suite.

(* every DST / seed string derived from an interface id *)
Definition derived (s : suite) (a : bytes) : list bytes :=
  [a ++ c_map_msg_scalar s; a ++ c_h2s s; a ++ c_generator_seed_dst s; a ++ c_generator_dst s;
   a ++ c_generator_seed s; a ++ c_keygen_dst s].
Definition all_derived : list bytes :=
  flat_map (derived sha_suite) (interface_ids sha_suite) ++
  flat_map (derived shake_suite) (interface_ids shake_suite).

Fixpoint is_prefix (a b : bytes) : bool :=
  match a, b with
  | [], _ => true
  | x :: a', y :: b' => (x =? y) && is_prefix a' b'
  | _, [] => false
  end.

Fixpoint pairwise {A} (r : A -> A -> bool) (l : list A) : bool :=
  match l with [] => true | x :: t => forallb (r x) t && pairwise r t end.

Definition no_prefix (a b : bytes) : bool := negb (is_prefix a b) && negb (is_prefix b a).

Definition consts_table_ok : bool :=
  pairwise no_prefix all_interface_ids &&
  pairwise (fun a b => negb (bytes_eqb a b)) all_derived &&
  forallb (fun d : bytes => Nat.leb (length d) 255) all_derived &&
  Nat.eqb (length (c_p1 sha_suite)) 48 && Nat.eqb (length (c_p1 shake_suite)) 48 &&
  negb (bytes_eqb (c_p1 sha_suite) (c_p1 shake_suite)) &&
  (c_expand_len sha_suite =? 48) && (c_expand_len shake_suite =? 48) &&
  (c_ikm_len sha_suite =? 32) && (c_ikm_len shake_suite =? 32) &&
  (sha_octet_scalar_len =? 32) && (shake_octet_scalar_len =? 32) &&
  (sha_expander_kind =? 0) && (shake_expander_kind =? 1) &&
  forallb wf_bytesb all_derived.

(* finite table, recomputed from the source on every run (6 interface ids, 36 derived strings) *)
Theorem interface_ids_separated : consts_table_ok = true.
Proof. vm_compute. reflexivity. Qed.

Lemma leb_255 (d : bytes) : Nat.leb (length d) 255 = true -> (length d <= 255)%nat.
Proof. apply Nat.leb_le. Qed.

Theorem sha_suite_dsts_ok : suite_dsts_ok sha_suite.
Proof. unfold suite_dsts_ok. repeat split; try (apply leb_255; vm_compute; reflexivity); reflexivity. Qed.
Theorem shake_suite_dsts_ok : suite_dsts_ok shake_suite.
Proof. unfold suite_dsts_ok. repeat split; try (apply leb_255; vm_compute; reflexivity); reflexivity. Qed.

(* ---------------------------------------------------------------- (2) generator derivation *)
Section Gen.
  Context (E : env).
  Notation P := (PR E).
  Notation G1t := (@G1 (SO E) P).

  (* the inputs of the seed chain: inp_k = v_(k-1) || I2OSP(i0 + k, 8), v_k = expand(inp_k, seed_dst, 48) *)
  Fixpoint input_loop (n : nat) (i : N) (v sd : bytes) : list bytes :=
    match n with
    | O => []
    | Datatypes.S n' =>
      let inp := v ++ i2osp8 i in
      inp :: input_loop n' (i + 1) (expand E inp sd 48) sd
    end.

  Lemma gen_loop_inputs n i v sd gd :
    gen_loop E n i v sd gd = map (fun inp => h2c E (expand E inp sd 48) gd) (input_loop n i v sd).
  Proof. revert i v; induction n as [|n IH]; intros i v; cbn; [reflexivity|]. rewrite IH. reflexivity. Qed.

  Lemma input_loop_nth n i v sd k x : nth_error (input_loop n i v sd) k = Some x ->
    exists pre, x = pre ++ i2osp8 (i + N.of_nat k).
  Proof.
    revert i v k; induction n as [|n IH]; intros i v [|k] H; cbn in H; try discriminate.
    - inversion H; subst. exists v. cbn [N.of_nat]. rewrite N.add_0_r. reflexivity.
    - apply IH in H as [pre ->]. exists pre. rewrite Nat2N.inj_succ, <- N.add_1_l, N.add_assoc. reflexivity.
  Qed.

  Lemma app_len_inj {A} (p q a b : list A) : length p = length q -> p ++ a = q ++ b -> a = b.
  Proof.
    revert q; induction p as [|x p IH]; intros [|y q] Hl H; cbn in *; try discriminate; [assumption|].
    inversion H. eapply IH; [|eassumption]. lia.
  Qed.
  Lemma app_tail_len_inj {A} (p q a b : list A) : length a = length b -> p ++ a = q ++ b -> a = b.
  Proof.
    intros Hl H. apply (app_len_inj p q); [|assumption].
    apply (f_equal (@length A)) in H. rewrite !app_length in H. lia.
  Qed.

  (* two different positions of the chain have different inputs (the counter suffix differs) *)
  Lemma input_loop_distinct n i v sd k1 k2 x1 x2 :
    i + N.of_nat n <= usize_max -> k1 <> k2 ->
    nth_error (input_loop n i v sd) k1 = Some x1 -> nth_error (input_loop n i v sd) k2 = Some x2 -> x1 <> x2.
  Proof.
    intros Hb Hk H1 H2 Heq.
    assert (L1 : (k1 < n)%nat).
    { assert (Hl : length (input_loop n i v sd) = n) by (clear; revert i v; induction n; intros; cbn; auto).
      rewrite <- Hl. apply nth_error_Some. congruence. }
    assert (L2 : (k2 < n)%nat).
    { assert (Hl : length (input_loop n i v sd) = n) by (clear; revert i v; induction n; intros; cbn; auto).
      rewrite <- Hl. apply nth_error_Some. congruence. }
    apply input_loop_nth in H1 as [p1 ->]. apply input_loop_nth in H2 as [p2 ->].
    apply app_tail_len_inj in Heq; [|rewrite !i2osp8_length; reflexivity].
    apply i2osp8_inj in Heq; lia.
  Qed.

  (* a repeated generator is a collision of expand_message or of hash_to_curve, on explicit distinct inputs *)
  Theorem generator_dup_reduces n api k1 k2 p :
    N.of_nat n < usize_max -> k1 <> k2 ->
    nth_error (create_generators E n api) k1 = Some p ->
    nth_error (create_generators E n api) k2 = Some p ->
    let sd := api ++ c_generator_seed_dst (cs E) in
    let gd := api ++ c_generator_dst (cs E) in
    exists x1 x2, x1 <> x2 /\
      (Collision (fun m => expand E m sd 48) x1 x2 \/
       Collision (fun m => h2c E m gd) (expand E x1 sd 48) (expand E x2 sd 48)).
  Proof.
    intros Hb Hk H1 H2 sd gd. unfold create_generators in H1, H2. fold sd gd in H1, H2.
    rewrite gen_loop_inputs in H1, H2.
    rewrite nth_error_map in H1, H2.
    destruct (nth_error (input_loop n 1 _ sd) k1) as [x1|] eqn:E1; cbn in H1; [|discriminate].
    destruct (nth_error (input_loop n 1 _ sd) k2) as [x2|] eqn:E2; cbn in H2; [|discriminate].
    inversion H1; inversion H2; subst.
    assert (Hne : x1 <> x2) by (eapply input_loop_distinct; [|exact Hk|exact E1|exact E2]; lia).
    exists x1, x2. split; [exact Hne|].
    destruct (list_eq_dec N.eq_dec (expand E x1 sd 48) (expand E x2 sd 48)) as [He|He].
    - left. split; assumption.
    - right. split; [assumption|]. congruence.
  Qed.

  (* a generator shared between two different interface ids is a collision of hash_to_curve on distinct
     (message, DST) pairs: the DSTs api || GENERATOR_DST differ *)
  Theorem generator_shared_reduces n m api api' p :
    api <> api' ->
    In p (create_generators E n api) -> In p (create_generators E m api') ->
    exists s s', Collision (fun md : bytes * bytes => h2c E (fst md) (snd md))
                           (s, api ++ c_generator_dst (cs E)) (s', api' ++ c_generator_dst (cs E)).
  Proof.
    intros Hne H1 H2. unfold create_generators in H1, H2. rewrite gen_loop_inputs in H1, H2.
    apply in_map_iff in H1 as [x1 [<- _]]. apply in_map_iff in H2 as [x2 [Hx2 _]].
    eexists. eexists. split; [|cbn [fst snd]; symmetry; exact Hx2].
    intros C. assert (Hd : api ++ c_generator_dst (cs E) = api' ++ c_generator_dst (cs E)) by (inversion C; reflexivity).
    apply app_inv_tail in Hd. contradiction.
  Qed.
End Gen.
