(* C15, continued: the prover side of nisp5 and the completeness theorem. *)
From ZK Require Import Cl ClArith ClSig ClMore ClGroup ClBoudot ModelLemmas ClSpok.
From Coq Require Import ZArith Lia Znumtheory Zpow_facts Zdiv Sorting.Sorted Setoid Morphisms Ring.
Open Scope Z_scope.

(* ---------------------------------------------------------------- prover-side building blocks *)
Section Prover.
  Variable CS : clsuite.
  Variable Nm : Z.
  Hypothesis HN : 0 < Nm.
  Local Infix "==" := (eqm Nm) (at level 70).

  (* prod_idx over all positions = the positional product *)
  Lemma prod_idx_seq bases msgs : forall cnt p acc, (p + cnt <= length msgs)%nat -> (p + cnt <= length bases)%nat ->
    prod_idx bases msgs Nm (map N.of_nat (seq p cnt)) acc =
    prod_pows (skipn p bases) (firstn cnt (skipn p msgs)) Nm acc.
  Proof.
    induction cnt as [|cnt IH]; intros p acc Hm Hb; [reflexivity|].
    cbn [seq map prod_idx]. unfold nthZ. rewrite Nat2N.id.
    destruct (nth_error bases p) as [a|] eqn:Ea; [|apply nth_error_None in Ea; lia].
    destruct (nth_error msgs p) as [m|] eqn:Em; [|apply nth_error_None in Em; lia]. cbn [unwrap bind].
    rewrite (nth_error_skipn _ _ _ Ea), (nth_error_skipn _ _ _ Em). cbn [firstn prod_pows].
    destruct (pow_mod a m Nm); cbn [bind]; try reflexivity. apply IH; lia.
  Qed.

  Lemma all_idx_none n : all_idx n None = map N.of_nat (seq 0 n).
  Proof. reflexivity. Qed.

  (* commit_with_commitment_pk over all messages: value = prod g_i^m_i * h^r mod N *)
  Lemma commit_with_cpk_all msgs ck ds c ds' :
    ck_N ck = Nm -> Forall (fun x => 0 <= x) msgs -> (length msgs <= length (ck_g ck))%nat ->
    Forall bits_ok ds ->
    commit_with_cpk CS msgs ck None ds = Ok (c, ds') ->
    0 <= c_rand c /\ 0 <= c_value c < Nm /\ c_value c == PP (ck_g ck) msgs * ck_h ck ^ c_rand c /\
    Forall bits_ok ds'.
  Proof.
    intros HNm Hm Hl Hd H. unfold commit_with_cpk in H. rewrite HNm in H.
    mstep H r d1 Hr. mstep H cx d2 Hcx. mstep H hr d3 Hhr. apply mret_ok in H as [-> ->].
    apply random_bits_nonneg in Hr as [Hr0 Hd1]; [|assumption].
    apply lift_ok in Hcx as [Hcx ->]. apply lift_ok in Hhr as [Hhr ->].
    rewrite all_idx_none in Hcx. rewrite prod_idx_seq in Hcx by lia. cbn [skipn] in Hcx. rewrite firstn_all in Hcx.
    apply (prod_pows_PP Nm HN) in Hcx as [Hc0 Hce]; [|assumption|lia].
    rewrite pow_mod_nonneg in Hhr by lia. inversion Hhr; subst hr; clear Hhr.
    cbn [c_value c_rand]. split; [assumption|].
    rewrite rem_mod_nonneg by first [lia | apply Z.mul_nonneg_nonneg; [assumption|apply Z.mod_pos_bound; lia]].
    split; [apply Z.mod_pos_bound; lia|]. split; [|assumption].
    eapply eqm_trans; [apply Zmod_eqm|]. apply eqm_mul; [exact HN| |apply Zmod_eqm].
    eapply eqm_trans; [exact Hce|]. apply eqm_eq. ring.
  Qed.

  (* r_5: non-negative, and equal to the attribute at every revealed position *)
  Lemma r5_loop_spec U : forall msgs i ds r5 ds',
    Forall (fun x => 0 <= x) msgs -> Forall bits_ok ds ->
    r5_loop CS msgs i U ds = Ok (r5, ds') ->
    length r5 = length msgs /\ Forall (fun x => 0 <= x) r5 /\ Forall bits_ok ds' /\
    (forall k, (k < length msgs)%nat -> memb (i + N.of_nat k)%N U = false -> nth k r5 0 = nth k msgs 0).
  Proof.
    induction msgs as [|m ms IH]; intros i ds r5 ds' Hm Hd H; cbn [r5_loop] in H.
    - apply mret_ok in H as [-> ->]. repeat split; auto; intros k Hk; cbn in Hk; lia.
    - inversion Hm; subst. mstep H r d1 Hr. mstep H t d2 Ht. apply mret_ok in H as [-> ->].
      assert (Hr' : 0 <= r /\ Forall bits_ok d1 /\ (memb i U = false -> r = m)).
      { destruct (memb i U).
        - apply random_bits_nonneg in Hr as [? ?]; [|assumption]. repeat split; auto. discriminate.
        - apply mret_ok in Hr as [-> ->]. auto. }
      destruct Hr' as [Hr0 [Hd1 Hrm]].
      apply IH in Ht as [Hl [Hn [Hd2 Hk]]]; [|assumption|assumption].
      split; [cbn; lia|]. split; [constructor; assumption|]. split; [assumption|].
      intros [|k] Hlt Hmem; cbn.
      + apply Hrm. rewrite N.add_0_r in Hmem. exact Hmem.
      + apply Hk; [cbn in Hlt; lia|]. replace (i + 1 + N.of_nat k)%N with (i + N.of_nat (Datatypes.S k))%N by lia. exact Hmem.
  Qed.
End Prover.

(* ---------------------------------------------------------------- the five equations as congruences *)
Section Alg.
  Variable n : Z.
  Hypothesis Hn : 0 < n.
  Definition cg (a b : Z) : Prop := eqm n a b.
  Local Infix "==" := cg (at level 70).
  Local Instance cg_equiv : Equivalence cg.
  Proof. unfold cg. split; [intros x; apply eqm_refl|intros x y; apply eqm_sym|intros x y z; apply eqm_trans]. Qed.
  Local Instance cg_mul : Proper (cg ==> cg ==> cg) Z.mul.
  Proof. intros a a' Ha b b' Hb. apply eqm_mul; assumption. Qed.
  Local Instance cg_pow : Proper (cg ==> eq ==> cg) Z.pow.
  Proof. intros a a' Ha k k' <-. apply eqm_pow; assumption. Qed.
  Lemma eqr a b : a = b -> a == b. Proof. intros ->; reflexivity. Qed.
  Lemma cg_mod x : x mod n == x. Proof. apply Zmod_eqm. Qed.

  Lemma cg_cancel u v x xi : x * xi == 1 -> u * x == v * x -> u == v.
  Proof.
    intros Hx H. transitivity (u * x * xi); [transitivity (u * (x * xi)); [rewrite Hx; apply eqr; ring|apply eqr; ring]|].
    rewrite H. transitivity (v * (x * xi)); [apply eqr; ring|]. rewrite Hx. apply eqr; ring.
  Qed.

  (* equations 2, 4, 5: a Schnorr side with the commitment E = B * h^r divided out *)
  Lemma schnorr_side A B h b r c E i : 0 <= b -> 0 <= r -> 0 <= c -> E == B * h ^ r -> i * E ^ c == 1 ->
    (A * B ^ c) * h ^ (b + r * c) * i == A * h ^ b.
  Proof.
    intros Hb Hr Hc HE Hi. rewrite Z.pow_add_r by nia. rewrite Z.pow_mul_r by assumption.
    transitivity (A * h ^ b * (i * (B * h ^ r) ^ c)); [apply eqr; rewrite Z.pow_mul_l; ring|].
    rewrite <- HE. rewrite Hi. apply eqr; ring.
  Qed.

  (* equation 3 *)
  Lemma eq3_alg Cw g0 ig0 h ih w rw r4 r8 r2 e c :
    0 <= w -> 0 <= rw -> 0 <= r4 -> 0 <= r8 -> 0 <= r2 -> 0 <= e -> 0 <= c ->
    Cw == g0 ^ w * h ^ rw -> g0 * ig0 == 1 -> h * ih == 1 ->
    Cw ^ (r4 + e * c) * ig0 ^ (r8 + w * e * c) * ih ^ (r2 + rw * e * c) == Cw ^ r4 * ig0 ^ r8 * ih ^ r2.
  Proof.
    intros Hw Hrw H4 H8 H2 He Hc HCw Hg Hh. rewrite !Z.pow_add_r by nia.
    assert (Hone : Cw ^ (e * c) * ig0 ^ (w * e * c) * ih ^ (rw * e * c) == 1).
    { rewrite HCw. transitivity ((g0 * ig0) ^ (w * e * c) * (h * ih) ^ (rw * e * c)).
      - apply eqr. rewrite !Z.pow_mul_l. rewrite <- !Z.pow_mul_r by nia.
        replace (w * (e * c)) with (w * e * c) by ring. replace (rw * (e * c)) with (rw * e * c) by ring. ring.
      - rewrite Hg, Hh. rewrite !Z.pow_1_l by nia. reflexivity. }
    transitivity (Cw ^ r4 * ig0 ^ r8 * ih ^ r2 * (Cw ^ (e * c) * ig0 ^ (w * e * c) * ih ^ (rw * e * c))); [apply eqr; ring|].
    rewrite Hone. apply eqr; ring.
  Qed.

  (* equation 1: the signature equation v^e = P * b^s * c in the exponent of the challenge *)
  Lemma eq1_alg Cv v g0 ig0 b ib cpk cc T P tcx' itx itx' w e s c r4 r6 r8 :
    0 <= w -> 0 <= e -> 0 <= s -> 0 <= c -> 0 <= r4 -> 0 <= r6 -> 0 <= r8 ->
    Cv == v * g0 ^ w -> v ^ e == P * b ^ s * cpk -> tcx' == T * P ^ c -> tcx' * itx' == 1 -> T * itx == 1 ->
    g0 * ig0 == 1 -> b * ib == 1 -> cc * cpk ^ c == 1 ->
    Cv ^ (r4 + e * c) * itx' * ib ^ (r6 + s * c) * ig0 ^ (r8 + w * e * c) * cc == Cv ^ r4 * itx * ib ^ r6 * ig0 ^ r8.
  Proof.
    intros Hw He Hs Hc H4 H6 H8 HCv Hsig Htcx Hitx0' Hitx0 Hg Hb Hcc.
    assert (Hitx' : itx' * tcx' == 1) by (transitivity (tcx' * itx'); [apply eqr; ring|exact Hitx0']).
    assert (Hitx : itx * T == 1) by (transitivity (T * itx); [apply eqr; ring|exact Hitx0]).
    apply (cg_cancel _ _ tcx' itx'); [exact Hitx0'|].
    transitivity (Cv ^ r4 * ib ^ r6 * ig0 ^ r8 * P ^ c).
    - transitivity (Cv ^ (r4 + e * c) * ib ^ (r6 + s * c) * ig0 ^ (r8 + w * e * c) * cc * (itx' * tcx')); [apply eqr; ring|].
      rewrite Hitx'. rewrite !Z.pow_add_r by nia.
      assert (Hk : Cv ^ (e * c) * ib ^ (s * c) * ig0 ^ (w * e * c) * cc == P ^ c).
      { rewrite (Z.pow_mul_r Cv) by assumption. rewrite HCv. rewrite (Z.pow_mul_l v). rewrite Hsig.
        transitivity (P ^ c * (b * ib) ^ (s * c) * (g0 * ig0) ^ (w * e * c) * (cc * cpk ^ c)).
        - apply eqr. rewrite !Z.pow_mul_l. rewrite <- !Z.pow_mul_r by nia. replace (w * e * c) with (w * (e * c)) by ring. ring.
        - rewrite Hb, Hg, Hcc. rewrite !Z.pow_1_l by nia. apply eqr; ring. }
      transitivity (Cv ^ r4 * ib ^ r6 * ig0 ^ r8 * (Cv ^ (e * c) * ib ^ (s * c) * ig0 ^ (w * e * c) * cc)); [apply eqr; ring|].
      rewrite Hk. reflexivity.
    - rewrite Htcx. transitivity (Cv ^ r4 * ib ^ r6 * ig0 ^ r8 * P ^ c * (itx * T)); [|apply eqr; ring].
      rewrite Hitx. apply eqr; ring.
  Qed.
End Alg.

(* ---------------------------------------------------------------- list facts about the hidden set *)
Lemma memb_in j U : memb j U = true <-> In j U.
Proof.
  unfold memb. rewrite existsb_exists. split.
  - intros [x [Hx He]]. apply N.eqb_eq in He. subst. exact Hx.
  - intros H. exists j. split; [exact H|apply N.eqb_refl].
Qed.

Lemma hidden_of_sorted U : strictly_sorted U -> forall cnt p,
  Forall (fun j => (p <= N.to_nat j < p + cnt)%nat) U -> hidden_of U p cnt = U.
Proof.
  intros HS cnt. revert U HS. induction cnt as [|cnt IH]; intros U HS p HF.
  - destruct U as [|u us]; [reflexivity|]. inversion HF; subst. lia.
  - unfold hidden_of. rewrite posN_S. cbn [filter]. fold (hidden_of U (Datatypes.S p) cnt).
    destruct U as [|u us].
    + cbn. apply (IH [] HS (Datatypes.S p)). constructor.
    + inversion HS as [|? ? HSus Hlt]; subst. inversion HF as [|? ? Hu HFus]; subst.
      destruct (N.eq_dec u (N.of_nat p)) as [->|Hne].
      * assert (Hm : memb (N.of_nat p) (N.of_nat p :: us) = true) by (apply memb_in; left; reflexivity).
        rewrite Hm. f_equal.
        assert (Hus : Forall (fun j => (Datatypes.S p <= N.to_nat j < Datatypes.S p + cnt)%nat) us).
        { rewrite Forall_forall in *. intros j Hj. specialize (Hlt j Hj). specialize (HFus j Hj). lia. }
        rewrite <- (IH us HSus (Datatypes.S p) Hus) at 2. unfold hidden_of. apply filter_ext_in.
        intros j Hj. unfold posN in Hj. apply in_map_iff in Hj as [k [<- Hk]]. apply in_seq in Hk.
        unfold memb. cbn [existsb]. destruct (N.eqb_spec (N.of_nat k) (N.of_nat p)); [lia|reflexivity].
      * assert (Hm : memb (N.of_nat p) (u :: us) = false).
        { destruct (memb (N.of_nat p) (u :: us)) eqn:E; [|reflexivity]. apply memb_in in E. destruct E as [E|E]; [congruence|].
          rewrite Forall_forall in Hlt. specialize (Hlt _ E). lia. }
        rewrite Hm. apply IH; [exact HS|]. constructor; [lia|].
        rewrite Forall_forall in *. intros j Hj. specialize (Hlt j Hj). specialize (HFus j Hj). lia.
Qed.

Lemma s5_map r5 msgs ch : forall U s5,
  mapM (fun i => let* r := nthZ r5 i in let* m := nthZ msgs i in Ok (r + m * ch)) U = Ok s5 ->
  s5 = map (fun j => at_ r5 j + at_ msgs j * ch) U.
Proof.
  induction U as [|u us IH]; intros s5 H; cbn in H; [inversion H; reflexivity|].
  unfold nthZ at 1 2 in H.
  destruct (nth_error r5 (N.to_nat u)) as [r|] eqn:Er; [|discriminate].
  destruct (nth_error msgs (N.to_nat u)) as [m|] eqn:Em; [|discriminate]. cbn [unwrap bind] in H.
  destruct (mapM _ us) as [t| | |] eqn:Et; try discriminate. cbn [bind] in H. inversion H; subst.
  cbn [map]. rewrite <- (IH t eq_refl). unfold at_. rewrite (nth_error_nth _ _ _ Er), (nth_error_nth _ _ _ Em). reflexivity.
Qed.

(* ---------------------------------------------------------------- the theorem *)
Lemma commit_v_spec CS Nm v ck ds c ds' : 0 < Nm -> ck_N ck = Nm -> 0 <= v ->
  Forall bits_ok ds -> commit_v CS v ck ds = Ok (c, ds') ->
  exists g0, nthZ (ck_g ck) 0 = Ok g0 /\ 0 <= c_rand c /\ 0 <= c_value c < Nm /\ cg Nm (c_value c) (v * g0 ^ c_rand c) /\
  Forall bits_ok ds'.
Proof.
  intros HN HNm Hv Hd H. unfold commit_v in H. rewrite HNm in H.
  mstep H w d1 Hw. mstep H g0 d2 Hg0. mstep H gw d3 Hgw. apply mret_ok in H as [-> ->].
  apply random_bits_nonneg in Hw as [Hw0 Hd1]; [|assumption].
  apply lift_ok in Hg0 as [Hg0 ->]. apply lift_ok in Hgw as [Hgw ->].
  rewrite pow_mod_nonneg in Hgw by lia. inversion Hgw; subst gw; clear Hgw.
  exists g0. cbn [c_value c_rand]. split; [exact Hg0|]. split; [exact Hw0|].
  rewrite rem_mod_nonneg by first [lia | apply Z.mul_nonneg_nonneg; [assumption|apply Z.mod_pos_bound; lia]].
  split; [apply Z.mod_pos_bound; lia|]. split; [|assumption].
  unfold cg. eapply eqm_trans; [apply Zmod_eqm|]. apply eqm_mul; [exact HN|apply eqm_refl|apply Zmod_eqm].
Qed.

Lemma walk_full Nm (HN : 0 < Nm) U bases ms r5 ch : 0 <= ch ->
  Forall (fun x => 0 <= x) ms -> Forall (fun x => 0 <= x) r5 -> length r5 = length ms ->
  (forall k, (k < length ms)%nat -> memb (0 + N.of_nat k) U = false -> nth k r5 0 = nth k ms 0) ->
  (length ms <= length bases)%nat ->
  exists r, walk bases Nm (map (fun j => at_ r5 j + at_ ms j * ch) (hidden_of U 0 (length ms)))
                 (map (at_ ms) (revealed_of U 0 (length ms))) ch U (length ms) 0%N 1 = Ok r /\ 0 <= r /\ cg Nm r (PP bases r5 * PP bases ms ^ ch).
Proof.
  intros Hch Hms Hr5 Hl Hrev Hb.
  assert (Hrev' : forall j, (N.to_nat j < length ms)%nat -> memb j U = false -> at_ r5 j = at_ ms j).
  { intros j Hj Hm. unfold at_. apply Hrev; [exact Hj|]. rewrite N2Nat.id. exact Hm. }
  destruct (walk_spec Nm HN U bases ms r5 ch Hch Hms Hr5 Hl Hrev' (length ms) 0%nat 1 [] [] ltac:(lia) ltac:(lia) ltac:(lia))
    as [r [Hw [Hr0 He]]].
  rewrite !app_nil_r in Hw. cbn [N.of_nat] in Hw. exists r. split; [exact Hw|]. split; [exact Hr0|].
  unfold cg. eapply eqm_trans; [exact He|]. apply eqm_eq. cbn [skipn].
  rewrite firstn_all2 by (rewrite map_length, combine_length; lia).
  rewrite PP_lin by assumption. ring.
Qed.

Lemma mod_nn a n : 0 < n -> 0 <= a mod n. Proof. intros. apply Z.mod_pos_bound; assumption. Qed.
Ltac nn1 := first [assumption | apply mod_nn; assumption | match goal with H : 0 <= ?x < _ |- 0 <= ?x => exact (proj1 H) end].
Ltac nn := repeat apply Z.mul_nonneg_nonneg; nn1.

Ltac en := apply Z.add_nonneg_nonneg; [assumption|repeat apply Z.mul_nonneg_nonneg; first [assumption | lia]].

Section Main.
  Variable CS : clsuite.

  Theorem nisp5_complete sg ck pk bases msgs U ds p ds' :
    0 < pk_N pk -> ck_N ck = pk_N pk ->
    Forall (unit (pk_N pk)) bases -> Forall (unit (pk_N pk)) (ck_g ck) -> unit (pk_N pk) (ck_h ck) ->
    unit (pk_N pk) (pk_b pk) -> unit (pk_N pk) (pk_c pk) -> 0 <= pk_c pk ->
    (length msgs <= length bases)%nat -> (length msgs <= length (ck_g ck))%nat -> (1 <= length (ck_g ck))%nat ->
    0 <= s_s sg ->
    verify_multiattr CS sg pk bases msgs = Ok true ->
    strictly_sorted U -> Forall (fun j => (N.to_nat j < length msgs)%nat) U ->
    Forall bits_ok ds ->
    nisp5_gen CS sg ck pk bases msgs U ds = Ok (p, ds') ->
    nisp5_verify p ck pk bases (map (at_ msgs) (revealed_of U 0 (length msgs))) U (length msgs) = Ok true.
  Proof.
    intros HN HNm Hbases Hcg Hh Hb Hc Hc0 Hlb Hlg Hg1 Hs Hver HS HU Hd H.
    remember (pk_N pk) as Nm eqn:ENm.
    (* the signature equation and the ranges, from the issuer's check *)
    unfold verify_multiattr in Hver.
    destruct (Nat.ltb_spec (length bases) (length msgs)); [lia|].
    destruct (forallb (msg_in_range CS) msgs) eqn:Hrange; [|discriminate]. cbn [negb] in Hver.
    rewrite <- ENm in Hver. destruct ((s_v sg <=? 0) || (Nm <=? s_v sg))%bool eqn:Hvr; [discriminate|].
    apply Bool.orb_false_iff in Hvr as [Hv0 HvN]. apply Z.leb_gt in Hv0. apply Z.leb_gt in HvN.
    assert (Hm0 : Forall (fun x => 0 <= x) msgs).
    { rewrite Forall_forall. intros x Hx. rewrite forallb_forall in Hrange. specialize (Hrange x Hx).
      unfold msg_in_range in Hrange. apply Bool.andb_true_iff in Hrange as [Hr _]. apply Z.leb_le in Hr. exact Hr. }
    destruct (Z.leb_spec (s_e sg) (two (le CS - 1))) as [|He].
    { destruct (pow_mod (s_v sg) (s_e sg) Nm); try discriminate. cbn [bind] in Hver.
      destruct (prod_pows bases msgs Nm 1); try discriminate. cbn [bind] in Hver.
      destruct (pow_mod (pk_b pk) (s_s sg) Nm); discriminate. }
    assert (He0 : 0 < s_e sg) by (pose proof (Z.pow_nonneg 2 (le CS - 1) ltac:(lia)); unfold two in He; lia).
    assert (He00 : 0 <= s_e sg) by lia.
    rewrite pow_mod_nonneg in Hver by lia. cbn [bind] in Hver.
    destruct (prod_pows bases msgs Nm 1) as [r0| | |] eqn:Hr0; try discriminate. cbn [bind] in Hver.
    rewrite pow_mod_nonneg in Hver by lia. cbn [bind] in Hver.
    apply (prod_pows_PP Nm HN) in Hr0 as [Hr00 Hr0]; [|assumption|lia].
    assert (Hsig : cg Nm (s_v sg ^ s_e sg) (PP bases msgs * pk_b pk ^ s_s sg * pk_c pk)).
    { cbn [orb] in Hver. destruct (two (le CS) <=? s_e sg); [discriminate|]. inversion Hver as [Hq]. apply Z.eqb_eq in Hq.
      rewrite rem_mod_nonneg in Hq by first [lia | repeat apply Z.mul_nonneg_nonneg; try assumption; apply Z.mod_pos_bound; lia].
      unfold cg. eapply eqm_trans; [apply eqm_sym; apply Zmod_eqm|]. rewrite Hq. eapply eqm_trans; [apply Zmod_eqm|].
      apply eqm_mul; [exact HN| |apply eqm_refl]. apply eqm_mul; [exact HN| |apply Zmod_eqm].
      eapply eqm_trans; [exact Hr0|]. apply eqm_eq. ring. }
    clear Hver Hr0 Hr00 r0.
    (* the prover *)
    unfold nisp5_gen in H. rewrite <- ENm in H.
    destruct (Nat.ltb_spec (length bases) (length msgs)); [lia|]. cbn [andb] in H.
    mstep H CCx d1 HCx. mstep H CCv d2 HCv. mstep H CCw d3 HCw. mstep H CCe d4 HCe.
    mstep H r1 d5 Hr1. mstep H r2 d6 Hr2. mstep H r3 d7 Hr3. mstep H r4 d8 Hr4. mstep H r6 d9 Hr6.
    mstep H r7 d10 Hr7. mstep H r8 d11 Hr8. mstep H r9 d12 Hr9. mstep H r5 d13 Hr5.
    mstep H tcx d14 Htcx. mstep H g0 d15 Hg0. mstep H cv4 d16 Hcv4. mstep H itcx d17 Hitcx. mstep H ib d18 Hib.
    mstep H ib6 d19 Hib6. mstep H ig0 d20 Hig0. mstep H ig8 d21 Hig8. mstep H g7 d22 Hg7. mstep H h1 d23 Hh1.
    mstep H cw4 d24 Hcw4. mstep H ih d25 Hih. mstep H ih2 d26 Hih2. mstep H t40 d27 Ht40. mstep H h3 d28 Hh3.
    mstep H g4 d29 Hg4. mstep H h9 d30 Hh9. mstep H s5 d31 Hs5. apply mret_ok in H as [-> _].
    repeat match goal with Hx : lift _ _ = Ok (_, _) |- _ => apply lift_ok in Hx as [Hx ->] end.
    (* the commitments *)
    apply (commit_with_cpk_all CS Nm HN) in HCx as [Hrx0 [HCxr [HCxe Hd1]]]; [|assumption|assumption|assumption|assumption].
    destruct (commit_v_spec CS Nm (s_v sg) ck d1 CCv d2 HN HNm ltac:(lia) Hd1 HCv) as [g0' [Hg0' [Hw0 [HCvr [HCve Hd2]]]]].
    rewrite Hg0 in Hg0'. inversion Hg0'; subst g0'; clear Hg0'.
    apply (commit_with_cpk_all CS Nm HN) in HCw as [Hrw0 [HCwr [HCwe Hd3]]];
      [|assumption|constructor; [assumption|constructor]|cbn; lia|assumption].
    apply (commit_with_cpk_all CS Nm HN) in HCe as [Hre0 [HCer [HCee Hd4]]];
      [|assumption|constructor; [lia|constructor]|cbn; lia|assumption].
    apply random_bits_nonneg in Hr1 as [Hr10 Hd5]; [|assumption].
    apply random_bits_nonneg in Hr2 as [Hr20 Hd6]; [|assumption].
    apply random_bits_nonneg in Hr3 as [Hr30 Hd7]; [|assumption].
    apply random_bits_nonneg in Hr4 as [Hr40 Hd8]; [|assumption].
    apply random_bits_nonneg in Hr6 as [Hr60 Hd9]; [|assumption].
    apply random_bits_nonneg in Hr7 as [Hr70 Hd10]; [|assumption].
    apply random_bits_nonneg in Hr8 as [Hr80 Hd11]; [|assumption].
    apply random_bits_nonneg in Hr9 as [Hr90 Hd12]; [|assumption].
    apply r5_loop_spec in Hr5 as [Hr5l [Hr50 [Hd13 Hr5rev]]]; [|assumption|assumption].
    remember (hash_int (str_cat [Z.rem (cv4 * itcx * ib6 * ig8) Nm; Z.rem (g7 * h1) Nm; Z.rem (cw4 * ig8 * ih2) Nm;
                                   Z.rem (t40 * h3) Nm; Z.rem (g4 * h9) Nm])) as ch eqn:Ech.
    assert (Hch : 0 <= ch) by (rewrite Ech; unfold hash_int; lia).
    apply s5_map in Hs5. subst s5.
    rewrite <- (hidden_of_sorted U HS (length msgs) 0%nat) at 1
      by (rewrite Forall_forall in *; intros j Hj; specialize (HU j Hj); lia).
    (* the prover's values *)
    apply (prod_pows_PP Nm HN) in Htcx as [Htcx0 Htcx]; [|assumption|lia].
    apply (prod_pows_PP Nm HN) in Ht40 as [Ht400 Ht40]; [|assumption|lia].
    rewrite pow_mod_nonneg in Hcv4, Hg7, Hh1, Hcw4, Hh3, Hg4, Hh9 by lia.
    apply (inv_of_ok Nm HN) in Hitcx as [_ [Hitcx Hitcxr]].
    pose proof (inv_of_ok Nm HN _ _ Hib) as [_ [Hibe Hibr]].
    pose proof (inv_of_ok Nm HN _ _ Hig0) as [_ [Hig0e Hig0r]].
    pose proof (inv_of_ok Nm HN _ _ Hih) as [_ [Hihe Hihr]].
    rewrite pow_mod_nonneg in Hib6, Hig8, Hih2 by lia.
    inversion Hcv4; subst cv4; clear Hcv4. inversion Hg7; subst g7; clear Hg7. inversion Hh1; subst h1; clear Hh1.
    inversion Hcw4; subst cw4; clear Hcw4. inversion Hh3; subst h3; clear Hh3. inversion Hg4; subst g4; clear Hg4.
    inversion Hh9; subst h9; clear Hh9. inversion Hib6; subst ib6; clear Hib6. inversion Hig8; subst ig8; clear Hig8.
    inversion Hih2; subst ih2; clear Hih2.
    assert (Hgl : exists rest, ck_g ck = g0 :: rest).
    { destruct (ck_g ck) as [|x rest]; [cbn in Hg0; discriminate|]. cbn in Hg0. inversion Hg0. eauto. }
    destruct Hgl as [grest Hgl].
    assert (Hg0u : unit Nm g0) by (rewrite Hgl in Hcg; inversion Hcg; assumption).
    (* the verifier *)
    unfold nisp5_verify. cbn [sp_chal sp_s1 sp_s2 sp_s3 sp_s4 sp_s5 sp_s6 sp_s7 sp_s8 sp_s9 sp_Cx sp_Cv sp_Cw sp_Ce].
    rewrite <- ENm. destruct (Nat.ltb_spec (length bases) (length msgs)); [lia|]. cbn [andb].
    (* the honest commitments are canonical residues *)
    assert (Hcan : existsb (fun c => (c_value c <? 0) || (Nm <=? c_value c))%bool [CCx; CCv; CCw; CCe] = false).
    { cbn [existsb].
      assert (Hc1 : forall v, 0 <= v < Nm -> ((v <? 0) || (Nm <=? v))%bool = false)
        by (intros v Hv; apply Bool.orb_false_iff; split; [apply Z.ltb_ge|apply Z.leb_gt]; lia).
      rewrite (Hc1 _ HCxr), (Hc1 _ HCvr), (Hc1 _ HCwr), (Hc1 _ HCer). reflexivity. }
    rewrite Hcan.
    destruct (walk_full Nm HN U bases msgs r5 ch Hch Hm0 Hr50 Hr5l Hr5rev Hlb) as [tw [Hw [Htw0 Htw]]].
    rewrite Hw. cbn [bind].
    rewrite (pow_mod_nonneg (c_value CCv)) by first [exact HN | en]. cbn [bind].
    (* units *)
    assert (Htwu : unit Nm (Z.rem tw Nm)).
    { rewrite rem_mod_nonneg by lia. apply (unit_eqm Nm HN (PP bases r5 * PP bases msgs ^ ch)).
      - apply eqm_sym. eapply eqm_trans; [apply Zmod_eqm|exact Htw].
      - apply (unit_mul Nm HN); [apply (PP_unit Nm HN); assumption|apply (unit_pow' Nm HN); [assumption|apply (PP_unit Nm HN); assumption]]. }
    destruct (inv_of_unit Nm HN _ Htwu) as [itw [Hitw [Hitwe Hitwr]]]. rewrite Hitw. cbn [bind].
    rewrite Hib. cbn [bind]. rewrite (pow_mod_nonneg ib) by first [exact HN | en]. cbn [bind].
    rewrite Hg0. cbn [bind]. rewrite Hig0. cbn [bind]. rewrite (pow_mod_nonneg ig0) by first [exact HN | en]. cbn [bind].
    destruct (pow_mod_neg_of_unit Nm HN (pk_c pk) ch Hch Hc) as [cc [Hcc [Hccr Hcce]]]. rewrite Hcc. cbn [bind].
    rewrite (pow_mod_nonneg g0) by first [exact HN | en]. cbn [bind].
    rewrite (pow_mod_nonneg (ck_h ck)) by first [exact HN | en]. cbn [bind].
    assert (HCwu : unit Nm (c_value CCw)).
    { apply (unit_eqm Nm HN _ _ (eqm_sym _ _ _ HCwe)). apply (unit_mul Nm HN).
      - apply (PP_unit Nm HN); [assumption|constructor; [assumption|constructor]].
      - apply (unit_pow' Nm HN); assumption. }
    destruct (pow_mod_neg_of_unit Nm HN (c_value CCw) ch Hch HCwu) as [cwc [Hcwc [Hcwcr Hcwce]]]. rewrite Hcwc. cbn [bind].
    rewrite (pow_mod_nonneg (c_value CCw)) by first [exact HN | en]. cbn [bind].
    rewrite Hih. cbn [bind]. rewrite (pow_mod_nonneg ih) by first [exact HN | en]. cbn [bind].
    destruct (walk_full Nm HN U (ck_g ck) msgs r5 ch Hch Hm0 Hr50 Hr5l Hr5rev Hlg) as [tw2 [Hw2 [Htw20 Htw2]]].
    rewrite Hw2. cbn [bind].
    rewrite (pow_mod_nonneg (ck_h ck)) by first [exact HN | en]. cbn [bind].
    assert (HCxu : unit Nm (c_value CCx)).
    { apply (unit_eqm Nm HN _ _ (eqm_sym _ _ _ HCxe)). apply (unit_mul Nm HN).
      - apply (PP_unit Nm HN); assumption.
      - apply (unit_pow' Nm HN); assumption. }
    destruct (pow_mod_neg_of_unit Nm HN (c_value CCx) ch Hch HCxu) as [cxc [Hcxc [Hcxcr Hcxce]]]. rewrite Hcxc. cbn [bind].
    rewrite (pow_mod_nonneg g0) by first [exact HN | en]. cbn [bind].
    rewrite (pow_mod_nonneg (ck_h ck)) by first [exact HN | en]. cbn [bind].
    assert (HCeu : unit Nm (c_value CCe)).
    { apply (unit_eqm Nm HN _ _ (eqm_sym _ _ _ HCee)). apply (unit_mul Nm HN).
      - apply (PP_unit Nm HN); [assumption|constructor; [lia|constructor]].
      - apply (unit_pow' Nm HN); assumption. }
    destruct (pow_mod_neg_of_unit Nm HN (c_value CCe) ch Hch HCeu) as [cec [Hcec [Hcecr Hcece]]]. rewrite Hcec. cbn [bind].
    (* the five recomputed values equal the prover's *)
    pose proof (cg_equiv Nm) as Ieq. pose proof (cg_mul Nm HN) as Imul. pose proof (cg_pow Nm HN) as Ipow.
    assert (Htwi : cg Nm (tw * itw) 1).
    { rewrite rem_mod_nonneg in Hitwe by lia. change (cg Nm (tw mod Nm * itw) 1) in Hitwe. rewrite (cg_mod Nm) in Hitwe. exact Hitwe. }
    assert (HTi : cg Nm (PP bases r5 * itcx) 1).
    { rewrite rem_mod_nonneg in Hitcx by lia. change (cg Nm (tcx mod Nm * itcx) 1) in Hitcx. rewrite (cg_mod Nm) in Hitcx.
      change (cg Nm tcx (1 * PP bases r5)) in Htcx. rewrite Htcx in Hitcx. rewrite Z.mul_1_l in Hitcx. exact Hitcx. }
    assert (HCw' : cg Nm (c_value CCw) (g0 ^ c_rand CCv * ck_h ck ^ c_rand CCw)).
    { change (cg Nm (c_value CCw) (PP (ck_g ck) [c_rand CCv] * ck_h ck ^ c_rand CCw)) in HCwe. rewrite HCwe. rewrite Hgl.
      apply eqr. cbn [PP]. ring. }
    assert (HCe' : cg Nm (c_value CCe) (g0 ^ s_e sg * ck_h ck ^ c_rand CCe)).
    { change (cg Nm (c_value CCe) (PP (ck_g ck) [s_e sg] * ck_h ck ^ c_rand CCe)) in HCee. rewrite HCee. rewrite Hgl.
      apply eqr. cbn [PP]. ring. }
    assert (E1 : Z.rem (c_value CCv ^ (r4 + s_e sg * ch) mod Nm * itw * (ib ^ (r6 + s_s sg * ch) mod Nm) *
                        (ig0 ^ (r8 + c_rand CCv * s_e sg * ch) mod Nm) * cc) Nm =
                 Z.rem (c_value CCv ^ r4 mod Nm * itcx * (ib ^ r6 mod Nm) * (ig0 ^ r8 mod Nm)) Nm).
    { rewrite !rem_mod_nonneg by first [exact HN | nn].
      change (cg Nm (c_value CCv ^ (r4 + s_e sg * ch) mod Nm * itw * (ib ^ (r6 + s_s sg * ch) mod Nm) *
                        (ig0 ^ (r8 + c_rand CCv * s_e sg * ch) mod Nm) * cc)
                    (c_value CCv ^ r4 mod Nm * itcx * (ib ^ r6 mod Nm) * (ig0 ^ r8 mod Nm))).
      rewrite !(cg_mod Nm).
      apply (eq1_alg Nm HN (c_value CCv) (s_v sg) g0 ig0 (pk_b pk) ib (pk_c pk) cc (PP bases r5) (PP bases msgs) tw itcx itw);
        try assumption; lia. }
    assert (E2 : Z.rem (g0 ^ (r7 + c_rand CCv * ch) mod Nm * (ck_h ck ^ (r1 + c_rand CCw * ch) mod Nm) * cwc) Nm =
                 Z.rem (g0 ^ r7 mod Nm * (ck_h ck ^ r1 mod Nm)) Nm).
    { rewrite !rem_mod_nonneg by first [exact HN | nn].
      change (cg Nm (g0 ^ (r7 + c_rand CCv * ch) mod Nm * (ck_h ck ^ (r1 + c_rand CCw * ch) mod Nm) * cwc)
                    (g0 ^ r7 mod Nm * (ck_h ck ^ r1 mod Nm))).
      rewrite !(cg_mod Nm). rewrite (Z.pow_add_r g0 r7) by first [assumption | nn]. rewrite (Z.pow_mul_r g0) by assumption.
      apply (schnorr_side Nm HN (g0 ^ r7) (g0 ^ c_rand CCv) (ck_h ck) r1 (c_rand CCw) ch (c_value CCw) cwc); assumption. }
    assert (E3 : Z.rem (c_value CCw ^ (r4 + s_e sg * ch) mod Nm * (ig0 ^ (r8 + c_rand CCv * s_e sg * ch) mod Nm) *
                        (ih ^ (r2 + c_rand CCw * s_e sg * ch) mod Nm)) Nm =
                 Z.rem (c_value CCw ^ r4 mod Nm * (ig0 ^ r8 mod Nm) * (ih ^ r2 mod Nm)) Nm).
    { rewrite !rem_mod_nonneg by first [exact HN | nn].
      change (cg Nm (c_value CCw ^ (r4 + s_e sg * ch) mod Nm * (ig0 ^ (r8 + c_rand CCv * s_e sg * ch) mod Nm) *
                        (ih ^ (r2 + c_rand CCw * s_e sg * ch) mod Nm))
                    (c_value CCw ^ r4 mod Nm * (ig0 ^ r8 mod Nm) * (ih ^ r2 mod Nm))).
      rewrite !(cg_mod Nm).
      apply (eq3_alg Nm HN (c_value CCw) g0 ig0 (ck_h ck) ih (c_rand CCv) (c_rand CCw)); try assumption; lia. }
    assert (E4 : Z.rem (tw2 * (ck_h ck ^ (r3 + c_rand CCx * ch) mod Nm) * cxc) Nm = Z.rem (t40 * (ck_h ck ^ r3 mod Nm)) Nm).
    { rewrite !rem_mod_nonneg by first [exact HN | nn].
      change (cg Nm (tw2 * (ck_h ck ^ (r3 + c_rand CCx * ch) mod Nm) * cxc) (t40 * (ck_h ck ^ r3 mod Nm))).
      rewrite !(cg_mod Nm). change (cg Nm t40 (1 * PP (ck_g ck) r5)) in Ht40. rewrite Ht40, Htw2. rewrite Z.mul_1_l.
      apply (schnorr_side Nm HN (PP (ck_g ck) r5) (PP (ck_g ck) msgs) (ck_h ck) r3 (c_rand CCx) ch (c_value CCx) cxc); assumption. }
    assert (E5 : Z.rem (g0 ^ (r4 + s_e sg * ch) mod Nm * (ck_h ck ^ (r9 + c_rand CCe * ch) mod Nm) * cec) Nm =
                 Z.rem (g0 ^ r4 mod Nm * (ck_h ck ^ r9 mod Nm)) Nm).
    { rewrite !rem_mod_nonneg by first [exact HN | nn].
      change (cg Nm (g0 ^ (r4 + s_e sg * ch) mod Nm * (ck_h ck ^ (r9 + c_rand CCe * ch) mod Nm) * cec)
                    (g0 ^ r4 mod Nm * (ck_h ck ^ r9 mod Nm))).
      rewrite !(cg_mod Nm). rewrite (Z.pow_add_r g0 r4) by first [assumption | nn]. rewrite (Z.pow_mul_r g0) by first [assumption | lia].
      apply (schnorr_side Nm HN (g0 ^ r4) (g0 ^ s_e sg) (ck_h ck) r9 (c_rand CCe) ch (c_value CCe) cec); assumption. }
    rewrite E1, E2, E3, E4, E5. rewrite <- Ech. rewrite Z.eqb_refl.
    rewrite map_length. rewrite (hidden_of_sorted U HS (length msgs) 0%nat) by (rewrite Forall_forall in *; intros j Hj; specialize (HU j Hj); lia).
    rewrite Nat.eqb_refl. reflexivity.
  Qed.
End Main.
