(* C15, continued: the prover side of nisp5 and the completeness theorem. *)
From ZK Require Import Cl ClArith ClSig ClMore ClGroup ClBoudot ModelLemmas ClSpok.
From Coq Require Import ZArith Lia Znumtheory Zpow_facts Zdiv Sorting.Sorted Setoid Morphisms Ring.
Open Scope Z_scope.

(* ---------------------------------------------------------------- prover-side building blocks *)
Section Prover.
  Variable CS : clsuite.
  Variable Nm : Z.
  Hypothesis HN : 0 < Nm.
  Local Infix "==" := (eqm Nm) (at level 70).

  (* prod_idx over all positions = the positional product *)
  Lemma prod_idx_seq bases msgs : forall cnt p acc, (p + cnt <= length msgs)%nat -> (p + cnt <= length bases)%nat ->
    prod_idx bases msgs Nm (map N.of_nat (seq p cnt)) acc =
    prod_pows (skipn p bases) (firstn cnt (skipn p msgs)) Nm acc.
  Proof.
    induction cnt as [|cnt IH]; intros p acc Hm Hb; [reflexivity|].
    cbn [seq map prod_idx]. unfold nthZ. rewrite Nat2N.id.
    destruct (nth_error bases p) as [a|] eqn:Ea; [|apply nth_error_None in Ea; lia].
    destruct (nth_error msgs p) as [m|] eqn:Em; [|apply nth_error_None in Em; lia]. cbn [unwrap bind].
    rewrite (nth_error_skipn _ _ _ Ea), (nth_error_skipn _ _ _ Em). cbn [firstn prod_pows].
    destruct (pow_mod a m Nm); cbn [bind]; try reflexivity. apply IH; lia.
  Qed.

  Lemma all_idx_none n : all_idx n None = map N.of_nat (seq 0 n).
  Proof. reflexivity. Qed.

  Lemma random_bits_nonneg k ds r ds' : Forall (fun d => 0 <= d_val d) ds -> random_bits k ds = Ok (r, ds') ->
    0 <= r /\ Forall (fun d => 0 <= d_val d) ds'.
  Proof.
    intros Hd H. apply random_bits_val in H as [x [-> ->]]. inversion Hd; subst. auto.
  Qed.

  (* commit_with_commitment_pk over all messages: value = prod g_i^m_i * h^r mod N *)
  Lemma commit_with_cpk_all msgs ck ds c ds' :
    ck_N ck = Nm -> Forall (fun x => 0 <= x) msgs -> (length msgs <= length (ck_g ck))%nat ->
    Forall (fun d => 0 <= d_val d) ds ->
    commit_with_cpk CS msgs ck None ds = Ok (c, ds') ->
    0 <= c_rand c /\ 0 <= c_value c < Nm /\ c_value c == PP (ck_g ck) msgs * ck_h ck ^ c_rand c /\
    Forall (fun d => 0 <= d_val d) ds'.
  Proof.
    intros HNm Hm Hl Hd H. unfold commit_with_cpk in H. rewrite HNm in H.
    mstep H r d1 Hr. mstep H cx d2 Hcx. mstep H hr d3 Hhr. apply mret_ok in H as [-> ->].
    apply random_bits_nonneg in Hr as [Hr0 Hd1]; [|assumption].
    apply lift_ok in Hcx as [Hcx ->]. apply lift_ok in Hhr as [Hhr ->].
    rewrite all_idx_none in Hcx. rewrite prod_idx_seq in Hcx by lia. cbn [skipn] in Hcx. rewrite firstn_all in Hcx.
    apply (prod_pows_PP Nm HN) in Hcx as [Hc0 Hce]; [|assumption|lia].
    rewrite pow_mod_nonneg in Hhr by lia. inversion Hhr; subst hr; clear Hhr.
    cbn [c_value c_rand]. split; [assumption|].
    rewrite rem_mod_nonneg by first [lia | apply Z.mul_nonneg_nonneg; [assumption|apply Z.mod_pos_bound; lia]].
    split; [apply Z.mod_pos_bound; lia|]. split; [|assumption].
    eapply eqm_trans; [apply Zmod_eqm|]. apply eqm_mul; [exact HN| |apply Zmod_eqm].
    eapply eqm_trans; [exact Hce|]. apply eqm_eq. ring.
  Qed.

  (* r_5: non-negative, and equal to the attribute at every revealed position *)
  Lemma r5_loop_spec U : forall msgs i ds r5 ds',
    Forall (fun x => 0 <= x) msgs -> Forall (fun d => 0 <= d_val d) ds ->
    r5_loop CS msgs i U ds = Ok (r5, ds') ->
    length r5 = length msgs /\ Forall (fun x => 0 <= x) r5 /\ Forall (fun d => 0 <= d_val d) ds' /\
    (forall k, (k < length msgs)%nat -> memb (i + N.of_nat k)%N U = false -> nth k r5 0 = nth k msgs 0).
  Proof.
    induction msgs as [|m ms IH]; intros i ds r5 ds' Hm Hd H; cbn [r5_loop] in H.
    - apply mret_ok in H as [-> ->]. repeat split; auto; intros k Hk; cbn in Hk; lia.
    - inversion Hm; subst. mstep H r d1 Hr. mstep H t d2 Ht. apply mret_ok in H as [-> ->].
      assert (Hr' : 0 <= r /\ Forall (fun d => 0 <= d_val d) d1 /\ (memb i U = false -> r = m)).
      { destruct (memb i U).
        - apply random_bits_nonneg in Hr as [? ?]; [|assumption]. repeat split; auto. discriminate.
        - apply mret_ok in Hr as [-> ->]. auto. }
      destruct Hr' as [Hr0 [Hd1 Hrm]].
      apply IH in Ht as [Hl [Hn [Hd2 Hk]]]; [|assumption|assumption].
      split; [cbn; lia|]. split; [constructor; assumption|]. split; [assumption|].
      intros [|k] Hlt Hmem; cbn.
      + apply Hrm. rewrite N.add_0_r in Hmem. exact Hmem.
      + apply Hk; [cbn in Hlt; lia|]. replace (i + 1 + N.of_nat k)%N with (i + N.of_nat (Datatypes.S k))%N by lia. exact Hmem.
  Qed.
End Prover.

(* ---------------------------------------------------------------- the five equations as congruences *)
Section Alg.
  Variable n : Z.
  Hypothesis Hn : 0 < n.
  Definition cg (a b : Z) : Prop := eqm n a b.
  Local Infix "==" := cg (at level 70).
  Local Instance cg_equiv : Equivalence cg.
  Proof. unfold cg. split; [intros x; apply eqm_refl|intros x y; apply eqm_sym|intros x y z; apply eqm_trans]. Qed.
  Local Instance cg_mul : Proper (cg ==> cg ==> cg) Z.mul.
  Proof. intros a a' Ha b b' Hb. apply eqm_mul; assumption. Qed.
  Local Instance cg_pow : Proper (cg ==> eq ==> cg) Z.pow.
  Proof. intros a a' Ha k k' <-. apply eqm_pow; assumption. Qed.
  Lemma eqr a b : a = b -> a == b. Proof. intros ->; reflexivity. Qed.
  Lemma cg_mod x : x mod n == x. Proof. apply Zmod_eqm. Qed.

  Lemma cg_cancel u v x xi : x * xi == 1 -> u * x == v * x -> u == v.
  Proof.
    intros Hx H. transitivity (u * x * xi); [transitivity (u * (x * xi)); [rewrite Hx; apply eqr; ring|apply eqr; ring]|].
    rewrite H. transitivity (v * (x * xi)); [apply eqr; ring|]. rewrite Hx. apply eqr; ring.
  Qed.

  (* equations 2, 4, 5: a Schnorr side with the commitment E = B * h^r divided out *)
  Lemma schnorr_side A B h b r c E i : 0 <= b -> 0 <= r -> 0 <= c -> E == B * h ^ r -> i * E ^ c == 1 ->
    (A * B ^ c) * h ^ (b + r * c) * i == A * h ^ b.
  Proof.
    intros Hb Hr Hc HE Hi. rewrite Z.pow_add_r by nia. rewrite Z.pow_mul_r by assumption.
    transitivity (A * h ^ b * (i * (B * h ^ r) ^ c)); [apply eqr; rewrite Z.pow_mul_l; ring|].
    rewrite <- HE. rewrite Hi. apply eqr; ring.
  Qed.

  (* equation 3 *)
  Lemma eq3_alg Cw g0 ig0 h ih w rw r4 r8 r2 e c :
    0 <= w -> 0 <= rw -> 0 <= r4 -> 0 <= r8 -> 0 <= r2 -> 0 <= e -> 0 <= c ->
    Cw == g0 ^ w * h ^ rw -> g0 * ig0 == 1 -> h * ih == 1 ->
    Cw ^ (r4 + e * c) * ig0 ^ (r8 + w * e * c) * ih ^ (r2 + rw * e * c) == Cw ^ r4 * ig0 ^ r8 * ih ^ r2.
  Proof.
    intros Hw Hrw H4 H8 H2 He Hc HCw Hg Hh. rewrite !Z.pow_add_r by nia.
    assert (Hone : Cw ^ (e * c) * ig0 ^ (w * e * c) * ih ^ (rw * e * c) == 1).
    { rewrite HCw. transitivity ((g0 * ig0) ^ (w * e * c) * (h * ih) ^ (rw * e * c)).
      - apply eqr. rewrite !Z.pow_mul_l. rewrite <- !Z.pow_mul_r by nia.
        replace (w * (e * c)) with (w * e * c) by ring. replace (rw * (e * c)) with (rw * e * c) by ring. ring.
      - rewrite Hg, Hh. rewrite !Z.pow_1_l by nia. reflexivity. }
    transitivity (Cw ^ r4 * ig0 ^ r8 * ih ^ r2 * (Cw ^ (e * c) * ig0 ^ (w * e * c) * ih ^ (rw * e * c))); [apply eqr; ring|].
    rewrite Hone. apply eqr; ring.
  Qed.

  (* equation 1: the signature equation v^e = P * b^s * c in the exponent of the challenge *)
  Lemma eq1_alg Cv v g0 ig0 b ib cpk cc T P tcx' itx itx' w e s c r4 r6 r8 :
    0 <= w -> 0 <= e -> 0 <= s -> 0 <= c -> 0 <= r4 -> 0 <= r6 -> 0 <= r8 ->
    Cv == v * g0 ^ w -> v ^ e == P * b ^ s * cpk -> tcx' == T * P ^ c -> tcx' * itx' == 1 -> T * itx == 1 ->
    g0 * ig0 == 1 -> b * ib == 1 -> cc * cpk ^ c == 1 ->
    Cv ^ (r4 + e * c) * itx' * ib ^ (r6 + s * c) * ig0 ^ (r8 + w * e * c) * cc == Cv ^ r4 * itx * ib ^ r6 * ig0 ^ r8.
  Proof.
    intros Hw He Hs Hc H4 H6 H8 HCv Hsig Htcx Hitx0' Hitx0 Hg Hb Hcc.
    assert (Hitx' : itx' * tcx' == 1) by (transitivity (tcx' * itx'); [apply eqr; ring|exact Hitx0']).
    assert (Hitx : itx * T == 1) by (transitivity (T * itx); [apply eqr; ring|exact Hitx0]).
    apply (cg_cancel _ _ tcx' itx'); [exact Hitx0'|].
    transitivity (Cv ^ r4 * ib ^ r6 * ig0 ^ r8 * P ^ c).
    - transitivity (Cv ^ (r4 + e * c) * ib ^ (r6 + s * c) * ig0 ^ (r8 + w * e * c) * cc * (itx' * tcx')); [apply eqr; ring|].
      rewrite Hitx'. rewrite !Z.pow_add_r by nia.
      assert (Hk : Cv ^ (e * c) * ib ^ (s * c) * ig0 ^ (w * e * c) * cc == P ^ c).
      { rewrite (Z.pow_mul_r Cv) by assumption. rewrite HCv. rewrite (Z.pow_mul_l v). rewrite Hsig.
        transitivity (P ^ c * (b * ib) ^ (s * c) * (g0 * ig0) ^ (w * e * c) * (cc * cpk ^ c)).
        - apply eqr. rewrite !Z.pow_mul_l. rewrite <- !Z.pow_mul_r by nia. replace (w * e * c) with (w * (e * c)) by ring. ring.
        - rewrite Hb, Hg, Hcc. rewrite !Z.pow_1_l by nia. apply eqr; ring. }
      transitivity (Cv ^ r4 * ib ^ r6 * ig0 ^ r8 * (Cv ^ (e * c) * ib ^ (s * c) * ig0 ^ (w * e * c) * cc)); [apply eqr; ring|].
      rewrite Hk. reflexivity.
    - rewrite Htcx. transitivity (Cv ^ r4 * ib ^ r6 * ig0 ^ r8 * P ^ c * (itx * T)); [|apply eqr; ring].
      rewrite Hitx. apply eqr; ring.
  Qed.
End Alg.

(* ---------------------------------------------------------------- list facts about the hidden set *)
Lemma memb_in j U : memb j U = true <-> In j U.
Proof.
  unfold memb. rewrite existsb_exists. split.
  - intros [x [Hx He]]. apply N.eqb_eq in He. subst. exact Hx.
  - intros H. exists j. split; [exact H|apply N.eqb_refl].
Qed.

Lemma hidden_of_sorted U : strictly_sorted U -> forall cnt p,
  Forall (fun j => (p <= N.to_nat j < p + cnt)%nat) U -> hidden_of U p cnt = U.
Proof.
  intros HS cnt. revert U HS. induction cnt as [|cnt IH]; intros U HS p HF.
  - destruct U as [|u us]; [reflexivity|]. inversion HF; subst. lia.
  - unfold hidden_of. rewrite posN_S. cbn [filter]. fold (hidden_of U (Datatypes.S p) cnt).
    destruct U as [|u us].
    + cbn. apply (IH [] HS (Datatypes.S p)). constructor.
    + inversion HS as [|? ? HSus Hlt]; subst. inversion HF as [|? ? Hu HFus]; subst.
      destruct (N.eq_dec u (N.of_nat p)) as [->|Hne].
      * assert (Hm : memb (N.of_nat p) (N.of_nat p :: us) = true) by (apply memb_in; left; reflexivity).
        rewrite Hm. f_equal.
        assert (Hus : Forall (fun j => (Datatypes.S p <= N.to_nat j < Datatypes.S p + cnt)%nat) us).
        { rewrite Forall_forall in *. intros j Hj. specialize (Hlt j Hj). specialize (HFus j Hj). lia. }
        rewrite <- (IH us HSus (Datatypes.S p) Hus) at 2. unfold hidden_of. apply filter_ext_in.
        intros j Hj. unfold posN in Hj. apply in_map_iff in Hj as [k [<- Hk]]. apply in_seq in Hk.
        unfold memb. cbn [existsb]. destruct (N.eqb_spec (N.of_nat k) (N.of_nat p)); [lia|reflexivity].
      * assert (Hm : memb (N.of_nat p) (u :: us) = false).
        { destruct (memb (N.of_nat p) (u :: us)) eqn:E; [|reflexivity]. apply memb_in in E. destruct E as [E|E]; [congruence|].
          rewrite Forall_forall in Hlt. specialize (Hlt _ E). lia. }
        rewrite Hm. apply IH; [exact HS|]. constructor; [lia|].
        rewrite Forall_forall in *. intros j Hj. specialize (Hlt j Hj). specialize (HFus j Hj). lia.
Qed.

Lemma s5_map r5 msgs ch : forall U s5,
  mapM (fun i => let* r := nthZ r5 i in let* m := nthZ msgs i in Ok (r + m * ch)) U = Ok s5 ->
  s5 = map (fun j => at_ r5 j + at_ msgs j * ch) U.
Proof.
  induction U as [|u us IH]; intros s5 H; cbn in H; [inversion H; reflexivity|].
  unfold nthZ at 1 2 in H.
  destruct (nth_error r5 (N.to_nat u)) as [r|] eqn:Er; [|discriminate].
  destruct (nth_error msgs (N.to_nat u)) as [m|] eqn:Em; [|discriminate]. cbn [unwrap bind] in H.
  destruct (mapM _ us) as [t| | |] eqn:Et; try discriminate. cbn [bind] in H. inversion H; subst.
  cbn [map]. rewrite <- (IH t eq_refl). unfold at_. rewrite (nth_error_nth _ _ _ Er), (nth_error_nth _ _ _ Em). reflexivity.
Qed.
