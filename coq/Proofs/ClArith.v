(* Arithmetic kit for the CL03 proofs: the model's modular exponentiation is b^e mod n; products of powers;
   the masking inequalities of C19. *)
From ZK Require Import Cl.
From Coq Require Import ZArith Lia Znumtheory Zpow_facts.
Open Scope Z_scope.

Lemma pow_pos_mod_spec b p n : 0 < n -> pow_pos_mod b p n = (b ^ Zpos p) mod n.
Proof.
  intros Hn. induction p as [p IH|p IH|]; cbn [pow_pos_mod].
  - rewrite IH. rewrite Pos2Z.inj_xI.
    replace (2 * Z.pos p + 1) with (Z.pos p + Z.pos p + 1) by lia.
    rewrite !Z.pow_add_r, Z.pow_1_r by lia.
    rewrite <- Z.mul_mod by lia. rewrite Z.mul_mod_idemp_l by lia. reflexivity.
  - rewrite IH. rewrite Pos2Z.inj_xO.
    replace (2 * Z.pos p) with (Z.pos p + Z.pos p) by lia.
    rewrite Z.pow_add_r by lia. rewrite <- Z.mul_mod by lia. reflexivity.
  - rewrite Z.pow_1_r. reflexivity.
Qed.

Lemma pow_nonneg_mod_spec b e n : 0 < n -> 0 <= e -> pow_nonneg_mod b e n = (b ^ e) mod n.
Proof.
  intros Hn He. unfold pow_nonneg_mod. destruct e as [|p|p]; [reflexivity|apply pow_pos_mod_spec; exact Hn|lia].
Qed.

Lemma pow_mod_nonneg b e n : 0 < n -> 0 <= e -> pow_mod b e n = Ok ((b ^ e) mod n).
Proof.
  intros Hn He. unfold pow_mod.
  destruct (Z.leb_spec n 0); [lia|]. destruct (Z.leb_spec 0 e); [|lia].
  rewrite pow_nonneg_mod_spec by assumption. reflexivity.
Qed.

Lemma pow_mod_range b e n r : pow_mod b e n = Ok r -> 0 <= r < n.
Proof.
  unfold pow_mod. destruct (Z.leb_spec n 0); [discriminate|].
  destruct (Z.leb_spec 0 e).
  - intros Hr; inversion Hr; subst. rewrite pow_nonneg_mod_spec by lia. apply Z.mod_pos_bound; lia.
  - destruct (invert b n); [|discriminate]. intros Hr; inversion Hr; subst.
    rewrite pow_nonneg_mod_spec by lia. apply Z.mod_pos_bound; lia.
Qed.

Lemma rem_mod_nonneg a n : 0 <= a -> 0 < n -> Z.rem a n = a mod n.
Proof. intros. apply Z.rem_mod_nonneg; lia. Qed.

(* (x^a mod n)^b mod n = x^(a*b) mod n *)
Lemma pow_mod_pow x a b n : 0 < n -> 0 <= a -> 0 <= b -> ((x ^ a) mod n) ^ b mod n = x ^ (a * b) mod n.
Proof.
  intros Hn Ha Hb. rewrite Z.pow_mul_r by assumption.
  rewrite <- (Zpower_mod (x ^ a) b n) by lia. reflexivity.
Qed.

(* ---------------------------------------------------------------- C19: masking *)
(* a response s = r + c*x divided by the challenge is x + floor(r/c) *)
Theorem response_quotient r c x : 0 < c -> (r + c * x) / c = x + r / c.
Proof. intros Hc. rewrite Z.mul_comm, Z.div_add by lia. lia. Qed.

(* a blinding of exactly k bits (bit k-1 set: random_bits) with k >= 321 and a challenge below 2^256 keeps
   floor(s/c) at least 2^64 away from the secret x, for EVERY such draw *)
Theorem mask_ok r c x k : 2 ^ (k - 1) <= r -> 0 < c < 2 ^ 256 -> 321 <= k -> 2 ^ 64 <= (r + c * x) / c - x.
Proof.
  intros Hr Hc Hk. rewrite response_quotient by lia.
  replace (x + r / c - x) with (r / c) by lia.
  apply Z.div_le_lower_bound; [lia|].
  assert (H320 : 2 ^ 320 <= 2 ^ (k - 1)) by (apply Z.pow_le_mono_r; lia).
  assert (Hm : c * 2 ^ 64 <= 2 ^ 256 * 2 ^ 64) by (apply Z.mul_le_mono_nonneg_r; [apply Z.pow_nonneg|]; lia).
  replace (2 ^ 256 * 2 ^ 64) with (2 ^ 320) in Hm by (rewrite <- Z.pow_add_r by lia; reflexivity).
  lia.
Qed.

(* what the pinned tree did: a blinding with the bit length of the secret alone leaks the secret *)
Theorem leak_old r c x k : 0 <= r < 2 ^ k -> 2 ^ (k - 64) <= c -> 64 <= k -> 0 <= (r + c * x) / c - x <= 2 ^ 64.
Proof.
  intros Hr Hc Hk.
  assert (Hp : 0 < 2 ^ (k - 64)) by (apply Z.pow_pos_nonneg; lia).
  rewrite response_quotient by lia.
  replace (x + r / c - x) with (r / c) by lia. split.
  - apply Z.div_pos; lia.
  - apply Z.div_le_upper_bound; [lia|].
    assert (H : 2 ^ k = 2 ^ (k - 64) * 2 ^ 64) by (rewrite <- Z.pow_add_r by lia; f_equal; lia).
    assert (2 ^ (k - 64) * 2 ^ 64 <= c * 2 ^ 64) by (apply Z.mul_le_mono_nonneg_r; [apply Z.pow_nonneg|]; lia).
    lia.
Qed.

(* ratio of two responses answering for x1 = y and x2 = y*e with proportional blindings is NOT e unless the
   blindings happen to be in that ratio: stated as the exact identity used by the attacker *)
Theorem ratio_identity r1 r2 c y e : 0 < r1 + c * y ->
  (r2 + c * (y * e)) = e * (r1 + c * y) + (r2 - e * r1).
Proof. intros _. ring. Qed.

(* ---------------------------------------------------------------- the blinding lengths of the model *)
(* bit lengths the sigma protocols of the MODEL request from random_bits, in source order of sigma_protocols.rs *)
Definition model_random_bits_requests (CS : clsuite) : list Z :=
  [lm CS + MASK;                                   (* nisp2: omega_i *)
   ln CS + MASK; ln CS + MASK;                     (* nisp2: mu_1, mu_2 *)
   ln CS + MASK; ln CS + MASK;                     (* nisp2sec: r1, r2 *)
   lm CS + MASK; ln CS + MASK;                     (* nispMultiSecrets: r1_i, r2 *)
   ln CS + MASK; ln CS + le CS + MASK; ln CS + MASK; le CS + MASK; ls CS + 1 + MASK;   (* nisp5: r_1 r_2 r_3 r_4 r_6 *)
   ln CS + MASK; ln CS + le CS + MASK; ln CS + MASK;                                   (* nisp5: r_7 r_8 r_9 *)
   lm CS + MASK].                                  (* nisp5: r_5 (hidden positions) *)

(* each blinding is at least 321 bits and at least (bit length of the secret it masks) + 256 + 65 *)
Definition masks_enough (CS : clsuite) : bool :=
  forallb (fun k => 321 <=? k) (model_random_bits_requests CS) &&
  (lm CS + 321 <=? lm CS + MASK) && (ln CS + 321 <=? ln CS + MASK) && (le CS + 321 <=? le CS + MASK).
