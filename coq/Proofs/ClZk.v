(* C14, composition: the whole proof of knowledge of the commitment opening sent with a blind-signature request
   (zkpok_gen: optional two-commitment proof for the trusted party, multi-secret proof, per-attribute opening and range
   proofs, opening and range proof of the commitment randomness) verifies. *)
From ZK Require Import Cl ClArith ClSig ClMore ClGroup ClBoudot ModelLemmas ClSpok ClSpok2 ClSpok3 ClDraws.
From Coq Require Import ZArith Lia Znumtheory Zpow_facts Zdiv List.
Import ListNotations.
Open Scope Z_scope.

Section Z.
  Variable CS : clsuite.
  Variable BP : bparams.
  Variable n : Z.
  Hypothesis Hn : 0 < n.
  Hypothesis Ht : 0 <= b_t BP.

  (* the commitment to one attribute under the issuer key: a_i^m_i b^r, for any logged r and any m_i *)
  Lemma commit_one_pk msgs pk bases i ds c ds' bi ai' : pk_N pk = n -> invert (pk_b pk) n = Some bi ->
    commit_with_pk CS msgs pk bases (Some [i]) ds = Ok (c, ds') ->
    forall a, nthZ bases i = Ok a -> invert a n = Some ai' ->
    exists m, nthZ msgs i = Ok m /\ c_value c = Cm n a ai' (pk_b pk) bi m (c_rand c).
  Proof.
    intros HN Hb H a Ha Hai. unfold commit_with_pk in H. rewrite HN in H.
    mstep H r d1 Hr. mstep H cx d2 Hcx. mstep H br d3 Hbr. apply mret_ok in H as [-> _].
    apply lift_ok in Hcx as [Hcx _]. apply lift_ok in Hbr as [Hbr _].
    cbn [all_idx prod_idx] in Hcx. rewrite Ha in Hcx. cbn [bind] in Hcx.
    destruct (nthZ msgs i) as [m| | |] eqn:Em; try discriminate. cbn [bind] in Hcx.
    rewrite (pow_mod_gp n Hn a ai' _ Hai) in Hcx. cbn [bind] in Hcx. inversion Hcx; subst cx; clear Hcx.
    rewrite (pow_mod_gp n Hn _ bi _ Hb) in Hbr. inversion Hbr; subst br; clear Hbr.
    exists m. split; [reflexivity|]. cbn [c_value c_rand].
    replace (match gp n a ai' m with 0 => 0 | Z.pos y' => Z.pos y' | Z.neg y' => Z.neg y' end) with (gp n a ai' m)
      by (destruct (gp n a ai' m); reflexivity).
    rewrite rem_mod_nonneg; [reflexivity| |exact Hn]. apply Z.mul_nonneg_nonneg; apply gp_range; exact Hn.
  Qed.

  Lemma zk_loop_complete msgs pk bases bi : pk_N pk = n -> invert (pk_b pk) n = Some bi -> Forall (unit n) bases ->
    forall U ds per ds',
    mmapM (fun i =>
             let+ mi := lift (nthZ msgs i) in
             let+ ai := lift (nthZ bases i) in
             let+ cmi := commit_with_pk CS msgs pk bases (Some [i]) in
             let+ pmi := nisp2sec_gen CS mi cmi ai (pk_b pk) (pk_N pk) in
             let+ rp := boudot_prove BP mi cmi ai (pk_b pk) (pk_N pk) 0 (max_x CS) in
             mret ({| pv_value := pmi; pv_com := cmi |}, rp)) U ds = Ok (per, ds') ->
    zkpok_verify_loop CS BP pk bases U (map fst per) (map snd per) = Ok true.
  Proof.
    intros HN Hb Hbu. induction U as [|i U IH]; intros ds per ds' H; cbn [mmapM] in H.
    - apply mret_ok in H as [-> _]. reflexivity.
    - mstep H x d1 Hx. mstep H rest d2 Hrest. apply mret_ok in H as [-> _].
      mstep Hx mi e1 Hmi. mstep Hx a e2 Ha. mstep Hx cmi e3 Hcmi. mstep Hx pmi e4 Hpmi. mstep Hx rp e5 Hrp.
      apply mret_ok in Hx as [-> _]. apply lift_ok in Hmi as [Hmi ->]. apply lift_ok in Ha as [Ha ->].
      rewrite HN in *.
      assert (Haunit : unit n a).
      { unfold nthZ in Ha. destruct (nth_error bases (N.to_nat i)) as [a'|] eqn:E; [|discriminate]. inversion Ha; subst a'.
        rewrite Forall_forall in Hbu. apply Hbu. eapply nth_error_In. exact E. }
      destruct (unit_invert n Hn a Haunit) as [ai [Hai _]].
      destruct (commit_one_pk msgs pk bases i _ _ _ bi ai HN Hb Hcmi a Ha Hai) as [m [Hm' HC]].
      rewrite Hmi in Hm'. inversion Hm'; subst m; clear Hm'.
      cbn [map fst snd zkpok_verify_loop]. rewrite Ha. cbn [bind]. cbn [pv_value pv_com]. rewrite HN.
      rewrite (nisp2sec_complete_u n Hn CS a ai (pk_b pk) bi Hai Hb mi cmi _ _ _ HC Hpmi). cbn [bind negb].
      rewrite (boudot_prove_E _ _ _ _ _ _ _ _ _ _ _ Hrp), Z.eqb_refl. cbn [negb].
      rewrite (boudot_complete n Hn a ai (pk_b pk) bi Hai Hb BP mi cmi 0 (max_x CS) _ _ _ Ht HC Hrp). cbn [bind negb].
      eapply IH. exact Hrest.
  Qed.
End Z.

Section ZT.
  Variable CS : clsuite.
  Variable BP : bparams.

  (* what the two-commitment proof for the trusted party needs (the premises of nisp2_complete) *)
  Definition trusted_ok (msgs : list Z) (C : commitment) (Ct : option commitment) (pk : pubkey) (ck : option cpubkey) (U : list N) : Prop :=
    match Ct, ck with
    | Some ct, Some k =>
      0 < ck_N k /\ 0 <= c_rand ct /\
      c_value ct mod ck_N k = (pprod (ck_g k) (map (fun j => nth (N.to_nat j) msgs 1) U) U * ck_h k ^ c_rand ct) mod ck_N k /\
      invert (c_value C) (pk_N pk) <> None /\ invert (c_value ct) (ck_N k) <> None
    | _, _ => True
    end.

  Theorem zkpok_complete msgs C Ct pk bases ck U ds p ds' :
    0 <= b_t BP -> 0 < pk_N pk ->
    Forall (unit (pk_N pk)) bases -> unit (pk_N pk) (pk_b pk) ->
    (length msgs <> 1)%nat -> 0 <= c_rand C ->
    (forall i, In i U -> 0 <= nth (N.to_nat i) msgs 1) ->
    c_value C = (pprod bases (map (fun i => nth (N.to_nat i) msgs 1) U) U * pk_b pk ^ c_rand C) mod pk_N pk ->
    trusted_ok msgs C Ct pk ck U ->
    Forall bits_ok ds ->
    zkpok_gen CS BP msgs C Ct pk bases ck U ds = Ok (p, ds') ->
    zkpok_verify CS BP p C Ct pk bases ck U = Ok true.
  Proof.
    intros Ht HN Hbu Hb Hlen Hr Hm HC Htr Hd H.
    destruct (unit_invert _ HN _ Hb) as [bi [Hbi _]].
    unfold zkpok_gen in H. mstep H tr d1 Htr'. mstep H pm d2 Hpm. mstep H per d3 Hper. mstep H cr d4 Hcr.
    mstep H a0 d5 Ha0. mstep H pr d6 Hpr. mstep H rpr d7 Hrpr. apply mret_ok in H as [-> _].
    apply lift_ok in Ha0 as [Ha0 ->].
    unfold zkpok_verify. cbn [zk_trusted zk_msgs zk_pmi zk_rpmi zk_pr zk_rpr pv_value pv_com].
    (* the trusted-party proof, and the draws it leaves *)
    assert (Hd1 : Forall bits_ok d1).
    { eapply (consumes_Forall _ bits_ok ds tr d1); [|exact Htr'|exact Hd].
      destruct Ct as [ct|]; [destruct ck as [k|]|]; cons. apply consumes_nisp2_gen. }
    assert (Hbt : (match Ct, ck with
                   | Some ct, Some k => let* tp := unwrap tr in nisp2_verify tp C ct pk bases k U
                   | _, _ => Ok true
                   end) = Ok true).
    { destruct Ct as [ct|]; [destruct ck as [k|]|]; try reflexivity.
      mstep Htr' p2 e1 Hp2. apply mret_ok in Htr' as [-> _]. cbn [unwrap bind].
      destruct Htr as [HNk [Hrt [HCt [Hi1 Hi2]]]].
      eapply (nisp2_complete CS msgs C ct pk bases k U ds p2 e1); try eassumption. rewrite HC. rewrite Z.mod_mod by lia. reflexivity. }
    rewrite Hbt. cbn [bind negb].
    rewrite (nispm_complete CS msgs C pk bases U d1 pm d2 HN Hlen Hr Hm HC Hd1 Hpm). cbn [bind negb].
    assert (Hlper : length per = length U).
    { apply (mmapM_forall _ (fun _ => True) U _ _ _ (fun _ _ _ _ _ => I) Hper). }
    rewrite !map_length, Hlper, Nat.eqb_refl. cbn [andb negb].
    rewrite (zk_loop_complete CS BP (pk_N pk) HN Ht msgs pk bases bi eq_refl Hbi Hbu U d2 per d3 Hper). cbn [bind negb].
    rewrite Ha0. cbn [bind].
    (* the commitment to the randomness: a_0^r b^r' *)
    assert (Ha0u : unit (pk_N pk) a0).
    { unfold nthZ in Ha0. destruct (nth_error bases (N.to_nat 0)) as [a'|] eqn:E; [|discriminate]. inversion Ha0; subst a'.
      rewrite Forall_forall in Hbu. apply Hbu. eapply nth_error_In. exact E. }
    destruct (unit_invert _ HN a0 Ha0u) as [a0i [Ha0i _]].
    assert (HCr : c_value cr = Cm (pk_N pk) a0 a0i (pk_b pk) bi (c_rand C) (c_rand cr)).
    { unfold commit_with_pk in Hcr. mstep Hcr r e1 Hr1. mstep Hcr cx e2 Hcx. mstep Hcr br e3 Hbr. apply mret_ok in Hcr as [-> _].
      apply lift_ok in Hcx as [Hcx _]. apply lift_ok in Hbr as [Hbr _].
      cbn [all_idx length seqN seq map prod_idx N.of_nat] in Hcx. rewrite Ha0 in Hcx. cbn [bind nthZ nth_error N.to_nat unwrap] in Hcx.
      rewrite (pow_mod_gp _ HN a0 a0i _ Ha0i) in Hcx. cbn [bind] in Hcx. inversion Hcx; subst cx; clear Hcx.
      rewrite (pow_mod_gp _ HN _ bi _ Hbi) in Hbr. inversion Hbr; subst br; clear Hbr. cbn [c_value c_rand].
      replace (match gp (pk_N pk) a0 a0i (c_rand C) with 0 => 0 | Z.pos y' => Z.pos y' | Z.neg y' => Z.neg y' end)
        with (gp (pk_N pk) a0 a0i (c_rand C)) by (destruct (gp (pk_N pk) a0 a0i (c_rand C)); reflexivity).
      rewrite rem_mod_nonneg; [reflexivity| |exact HN]. apply Z.mul_nonneg_nonneg; apply gp_range; exact HN. }
    rewrite (nisp2sec_complete_u _ HN CS a0 a0i (pk_b pk) bi Ha0i Hbi (c_rand C) cr _ _ _ HCr Hpr). cbn [bind negb].
    rewrite (boudot_prove_E _ _ _ _ _ _ _ _ _ _ _ Hrpr), Z.eqb_refl. cbn [negb].
    exact (boudot_complete _ HN a0 a0i (pk_b pk) bi Ha0i Hbi BP (c_rand C) cr 0 (max_r CS) _ _ _ Ht HCr Hrpr).
  Qed.
End ZT.

(* ---------------------------------------------------------------- the issued signature verifies *)
Lemma PP_gcd1 n bases : forall exps, Forall (fun a => Z.gcd a n = 1) bases -> Forall (fun x => 0 <= x) exps ->
  Z.gcd (PP bases exps) n = 1.
Proof.
  induction bases as [|a bs IH]; intros exps Hb Hx.
  - destruct exps; cbn; apply Z.gcd_1_l.
  - destruct exps as [|x xs]; cbn [PP]; [apply Z.gcd_1_l|]. inversion Hb; inversion Hx; subst.
    apply gcd1_mul; [apply gcd1_pow; assumption|apply IH; assumption].
Qed.

Section BI.
  Variable CS : clsuite.
  Variable BP : bparams.

  Lemma consumes_e_loop ph : consumes (e_loop CS ph).
  Proof. unfold e_loop. cons. Qed.

  (* blind issuance: whenever blind_sign returns, and the (extended) commitment it signed commits to the whole attribute
     vector msgs with the holder's randomness r, the unblinded signature is a valid signature on msgs *)
  Theorem blind_issue_complete pk sk bases zk revealed C Ct ck U ridx ds b ds' msgs ext :
    good_key pk sk ->
    Forall (fun a => Z.gcd a (pk_N pk) = 1) bases ->
    forallb (msg_in_range CS) msgs = true -> (length msgs <= length bases)%nat ->
    0 <= c_rand C ->
    (match revealed, ridx with
     | Some rm, Some _ => extend_commitment_with_pk C rm pk bases ridx
     | _, _ => Ok C
     end) = Ok ext ->
    0 <= c_value ext ->
    c_value ext mod pk_N pk = (PP bases msgs * pk_b pk ^ c_rand C) mod pk_N pk ->
    Forall bits_ok ds ->
    blind_sign CS BP pk sk bases zk revealed C Ct ck U ridx ds = Ok (b, ds') ->
    verify_multiattr CS (unblind_sign b C) pk bases msgs = Ok true.
  Proof.
    intros G Hb Hm Hlen Hr Hext Hext0 HextC Hd H. pose proof G as [HN Hphi _ Hgb [Hgc Hc0]].
    assert (HN0 : 0 < pk_N pk) by lia.
    unfold blind_sign in H. mstep H ok d0 Hok. apply lift_ok in Hok as [_ ->].
    destruct ok; cbn [negb] in H; [|discriminate].
    mstep H ext' d1 Hext'. apply lift_ok in Hext' as [Hext' ->]. rewrite Hext in Hext'. inversion Hext'; subst ext'; clear Hext'.
    mstep H e d2 He. pose proof (consumes_Forall _ bits_ok _ _ _ (consumes_e_loop (phi sk)) He Hd) as Hd2.
    apply e_loop_exit in He as [He1 [He2 He3]].
    mstep H r' d3 Hr'. apply (random_bits_nonneg _ _ _ _ Hd2) in Hr' as [Hr'0 _].
    mstep H e2n d4 Hi. apply lift_ok in Hi as [Hi _].
    mstep H br d5 Hbr. apply lift_ok in Hbr as [Hbr _].
    mstep H v d6 Hv. apply lift_ok in Hv as [Hv _]. apply mret_ok in H as [-> _].
    destruct (invert e (phi sk)) as [x|] eqn:Einv; cbn [unwrap] in Hi; [|discriminate]. inversion Hi; subst x; clear Hi.
    assert (Hmn : Forall (fun m => 0 <= m) msgs).
    { apply Forall_forall. intros m Hin. apply (msg_in_range_nonneg CS). rewrite forallb_forall in Hm. apply Hm; exact Hin. }
    rewrite pow_mod_nonneg in Hbr by lia. inversion Hbr; subst br; clear Hbr.
    set (X := c_value ext * (pk_b pk ^ r' mod pk_N pk) * pk_c pk) in *.
    assert (HX0 : 0 <= X) by (unfold X; repeat apply Z.mul_nonneg_nonneg; try lia; apply Z.mod_pos_bound; lia).
    assert (Hextg : Z.gcd (c_value ext) (pk_N pk) = 1).
    { rewrite Z.gcd_comm. rewrite <- Z.gcd_mod by lia. rewrite HextC. apply gcd1_mod; [lia|].
      apply gcd1_mul; [apply PP_gcd1; assumption|apply gcd1_pow; assumption]. }
    assert (HXg : Z.gcd X (pk_N pk) = 1).
    { unfold X. repeat apply gcd1_mul; try assumption. apply gcd1_mod; [lia|]. apply gcd1_pow; assumption. }
    assert (Hepos : 0 < e) by (unfold two in He1; pose proof (Z.pow_nonneg 2 (le CS - 1)); lia).
    destruct (root_verifies pk sk X e e2n v G HX0 HXg Hepos Einv Hv) as [Hvr Hlhs].
    unfold verify_multiattr, unblind_sign. cbn [s_e s_s s_v bs_e bs_rprime bs_v].
    destruct (Nat.ltb_spec (length bases) (length msgs)); [lia|].
    rewrite Hm. cbn [negb].
    destruct (Z.leb_spec v 0); [lia|]. destruct (Z.leb_spec (pk_N pk) v); [lia|]. cbn [orb].
    rewrite Hlhs. cbn [bind].
    destruct (prod_pows_total (pk_N pk) HN0 bases msgs 1 Hmn Hlen) as [r0 Hr0]. rewrite Hr0. cbn [bind].
    rewrite pow_mod_nonneg by lia. cbn [bind].
    destruct (Z.leb_spec e (two (le CS - 1))); [lia|]. destruct (Z.leb_spec (two (le CS)) e); [lia|]. cbn [orb].
    apply (prod_pows_PP (pk_N pk) HN0) in Hr0 as [Hr00 Hr0e]; [|assumption|lia].
    f_equal. apply Z.eqb_eq.
    rewrite rem_mod_nonneg by first [lia | repeat apply Z.mul_nonneg_nonneg; try lia; apply Z.mod_pos_bound; lia].
    change (eqm (pk_N pk) X (r0 * (pk_b pk ^ (c_rand C + r') mod pk_N pk) * pk_c pk)).
    unfold X. apply (eqm_mul _ HN0); [|apply eqm_refl].
    eapply eqm_trans; [apply (eqm_mul _ HN0); [exact HextC|apply Zmod_eqm]|].
    apply eqm_sym. eapply eqm_trans; [apply (eqm_mul _ HN0); [exact Hr0e|apply Zmod_eqm]|].
    apply eqm_eq. rewrite Z.pow_add_r by assumption. ring.
  Qed.
End BI.

(* ---------------------------------------------------------------- the honest holder: hidden + revealed = everything *)
Definition SelZ (bases msgs : list Z) (l : list N) : Z := fold_right (fun j acc => at_ bases j ^ at_ msgs j * acc) 1 l.

Lemma sel_partition U bases msgs : forall cnt p, (p + cnt <= length msgs)%nat -> (p + cnt <= length bases)%nat ->
  SelZ bases msgs (hidden_of U p cnt) * SelZ bases msgs (revealed_of U p cnt) =
  PP (skipn p bases) (firstn cnt (skipn p msgs)).
Proof.
  induction cnt as [|cnt IH]; intros p Hm Hb.
  - cbn. reflexivity.
  - unfold hidden_of, revealed_of. rewrite posN_S. cbn [filter].
    fold (hidden_of U (Datatypes.S p) cnt). fold (revealed_of U (Datatypes.S p) cnt).
    destruct (nth_error bases p) as [a|] eqn:Ea; [|apply nth_error_None in Ea; lia].
    destruct (nth_error msgs p) as [m|] eqn:Em; [|apply nth_error_None in Em; lia].
    rewrite (nth_error_skipn _ _ _ Ea), (nth_error_skipn _ _ _ Em). cbn [firstn PP].
    rewrite <- (IH (Datatypes.S p)) by lia.
    assert (Hap : at_ bases (N.of_nat p) = a) by (unfold at_; rewrite Nat2N.id; apply nth_error_nth; exact Ea).
    assert (Hmp : at_ msgs (N.of_nat p) = m) by (unfold at_; rewrite Nat2N.id; apply nth_error_nth; exact Em).
    destruct (memb (N.of_nat p) U); cbn [negb SelZ fold_right]; rewrite Hap, Hmp; unfold SelZ; ring.
Qed.

Section Honest.
  Variable n : Z.
  Hypothesis Hn : 0 < n.
  Local Infix "==" := (eqm n) (at level 70).

  Lemma prod_idx_sel bases msgs : forall l acc, 0 <= acc ->
    Forall (fun j => (N.to_nat j < length bases)%nat /\ (N.to_nat j < length msgs)%nat /\ 0 <= at_ msgs j) l ->
    exists r, prod_idx bases msgs n l acc = Ok r /\ 0 <= r /\ r == acc * SelZ bases msgs l.
  Proof.
    induction l as [|j l IH]; intros acc Ha Hl.
    - exists acc. cbn. split; [reflexivity|]. split; [assumption|]. apply eqm_eq. ring.
    - inversion Hl as [|? ? [Hjb [Hjm Hj0]] Hl']; subst. cbn [prod_idx]. unfold nthZ.
      destruct (nth_error bases (N.to_nat j)) as [a|] eqn:Ea; [|apply nth_error_None in Ea; lia].
      destruct (nth_error msgs (N.to_nat j)) as [m|] eqn:Em; [|apply nth_error_None in Em; lia]. cbn [unwrap bind].
      assert (Hap : at_ bases j = a) by (unfold at_; apply nth_error_nth; exact Ea).
      assert (Hmp : at_ msgs j = m) by (unfold at_; apply nth_error_nth; exact Em).
      rewrite Hmp in Hj0. rewrite pow_mod_nonneg by assumption. cbn [bind].
      destruct (IH (acc * (a ^ m mod n))) as [r [Hr [Hr0 He]]];
        [apply Z.mul_nonneg_nonneg; [assumption|apply Z.mod_pos_bound; exact Hn]|assumption|].
      exists r. split; [exact Hr|]. split; [exact Hr0|]. eapply eqm_trans; [exact He|].
      cbn [SelZ fold_right]. rewrite Hap, Hmp. fold (SelZ bases msgs l).
      apply eqm_trans with (b := acc * a ^ m * SelZ bases msgs l); [|apply eqm_eq; ring].
      apply (eqm_mul n Hn); [|apply eqm_refl]. apply (eqm_mul n Hn); [apply eqm_refl|apply Zmod_eqm].
  Qed.

  Lemma extend_loop_sel bases msgs : forall l v, 0 <= v ->
    Forall (fun j => (N.to_nat j < length bases)%nat /\ (N.to_nat j < length msgs)%nat /\ 0 <= at_ msgs j) l ->
    exists r, extend_loop v bases n l (map (at_ msgs) l) = Ok r /\ 0 <= r /\ r == v * SelZ bases msgs l.
  Proof.
    induction l as [|j l IH]; intros v Hv Hl.
    - exists v. cbn. split; [reflexivity|]. split; [assumption|]. apply eqm_eq. ring.
    - inversion Hl as [|? ? [Hjb [Hjm Hj0]] Hl']; subst. cbn [extend_loop map]. unfold nthZ.
      destruct (nth_error bases (N.to_nat j)) as [a|] eqn:Ea; [|apply nth_error_None in Ea; lia]. cbn [unwrap bind].
      assert (Hap : at_ bases j = a) by (unfold at_; apply nth_error_nth; exact Ea).
      rewrite pow_mod_nonneg by assumption. cbn [bind].
      assert (Hnn : 0 <= v * (a ^ at_ msgs j mod n)) by (apply Z.mul_nonneg_nonneg; [assumption|apply Z.mod_pos_bound; exact Hn]).
      rewrite rem_mod_nonneg by assumption.
      destruct (IH ((v * (a ^ at_ msgs j mod n)) mod n)) as [r [Hr [Hr0 He]]]; [apply Z.mod_pos_bound; exact Hn|assumption|].
      exists r. split; [exact Hr|]. split; [exact Hr0|]. eapply eqm_trans; [exact He|].
      cbn [SelZ fold_right]. rewrite Hap. fold (SelZ bases msgs l).
      apply eqm_trans with (b := v * a ^ at_ msgs j * SelZ bases msgs l); [|apply eqm_eq; ring].
      apply (eqm_mul n Hn); [|apply eqm_refl]. eapply eqm_trans; [apply Zmod_eqm|].
      apply (eqm_mul n Hn); [apply eqm_refl|apply Zmod_eqm].
  Qed.
End Honest.

Section HonestFlow.
  Variable CS : clsuite.

  (* the holder commits to the attributes at the hidden positions U, the issuer extends the commitment with the revealed
     attributes at the complementary positions: the result commits to the whole vector, for every U *)
  Theorem honest_extension_commits_to_all pk bases msgs U ds C ds' :
    0 < pk_N pk -> (length msgs <= length bases)%nat -> Forall (fun m => 0 <= m) msgs ->
    strictly_sorted U -> Forall (fun j => (N.to_nat j < length msgs)%nat) U ->
    Forall bits_ok ds ->
    commit_with_pk CS msgs pk bases (Some U) ds = Ok (C, ds') ->
    0 <= c_rand C /\
    exists ext, extend_commitment_with_pk C (map (at_ msgs) (revealed_of U 0 (length msgs))) pk bases
                  (Some (revealed_of U 0 (length msgs))) = Ok ext /\
      0 <= c_value ext /\ c_rand ext = c_rand C /\
      c_value ext mod pk_N pk = (PP bases msgs * pk_b pk ^ c_rand C) mod pk_N pk.
  Proof.
    intros HN Hlen Hm HS HU Hd H. unfold commit_with_pk in H.
    mstep H r d1 Hr. mstep H cx d2 Hcx. mstep H br d3 Hbr. apply mret_ok in H as [-> _].
    apply (random_bits_nonneg _ _ _ _ Hd) in Hr as [Hr0 _].
    apply lift_ok in Hcx as [Hcx _]. apply lift_ok in Hbr as [Hbr _]. cbn [all_idx] in Hcx.
    rewrite pow_mod_nonneg in Hbr by assumption. inversion Hbr; subst br; clear Hbr.
    assert (Hpos : forall l, Forall (fun j => (N.to_nat j < length msgs)%nat) l ->
              Forall (fun j => (N.to_nat j < length bases)%nat /\ (N.to_nat j < length msgs)%nat /\ 0 <= at_ msgs j) l).
    { intros l Hl. eapply Forall_impl; [|exact Hl]. intros j Hj. cbv beta in Hj. split; [lia|]. split; [exact Hj|].
      unfold at_. rewrite Forall_forall in Hm. apply Hm. apply nth_In. exact Hj. }
    destruct (prod_idx_sel (pk_N pk) HN bases msgs U 1 ltac:(lia) (Hpos U HU)) as [cx' [Hcx' [Hcx0 Hcxe]]].
    rewrite Hcx in Hcx'. inversion Hcx'; subst cx'; clear Hcx'.
    cbn [c_rand c_value]. split; [exact Hr0|].
    assert (Hrev : Forall (fun j => (N.to_nat j < length msgs)%nat) (revealed_of U 0 (length msgs))).
    { unfold revealed_of. rewrite Forall_forall. intros j Hj. apply filter_In in Hj as [Hj _]. unfold posN in Hj.
      apply in_map_iff in Hj as [k [<- Hk]]. apply in_seq in Hk. rewrite Nat2N.id. lia. }
    set (cv := Z.rem (cx * (pk_b pk ^ r mod pk_N pk)) (pk_N pk)).
    assert (Hcv : cv = (cx * (pk_b pk ^ r mod pk_N pk)) mod pk_N pk).
    { unfold cv. apply rem_mod_nonneg; [|exact HN]. apply Z.mul_nonneg_nonneg; [assumption|apply Z.mod_pos_bound; exact HN]. }
    assert (Hcv0 : 0 <= cv) by (rewrite Hcv; apply Z.mod_pos_bound; exact HN).
    destruct (extend_loop_sel (pk_N pk) HN bases msgs (revealed_of U 0 (length msgs)) cv Hcv0 (Hpos _ Hrev)) as [ev [Hev [Hev0 Heve]]].
    exists {| c_value := ev; c_rand := r |}. unfold extend_commitment_with_pk. cbn [all_idx c_value c_rand].
    rewrite map_length, Nat.eqb_refl. cbn [negb]. fold cv. rewrite Hev. cbn [bind].
    split; [reflexivity|]. split; [exact Hev0|]. split; [reflexivity|].
    change (eqm (pk_N pk) ev (PP bases msgs * pk_b pk ^ r)).
    eapply eqm_trans; [exact Heve|]. rewrite Hcv.
    pose proof (sel_partition U bases msgs (length msgs) 0%nat ltac:(lia) ltac:(lia)) as Hp.
    cbn [skipn] in Hp. rewrite firstn_all in Hp. rewrite <- Hp.
    rewrite (hidden_of_sorted U HS (length msgs) 0%nat) by (rewrite Forall_forall in *; intros j Hj; specialize (HU j Hj); lia).
    apply eqm_trans with (b := (1 * SelZ bases msgs U) * pk_b pk ^ r * SelZ bases msgs (revealed_of U 0 (length msgs))); [|apply eqm_eq; ring].
    apply (eqm_mul _ HN); [|apply eqm_refl]. eapply eqm_trans; [apply Zmod_eqm|].
    apply (eqm_mul _ HN); [exact Hcxe|apply Zmod_eqm].
  Qed.
End HonestFlow.

Lemma pprod_SelZ bases msgs : forall U,
  Forall (fun j => (N.to_nat j < length bases)%nat /\ (N.to_nat j < length msgs)%nat) U ->
  pprod bases (map (fun i => nth (N.to_nat i) msgs 1) U) U = SelZ bases msgs U.
Proof.
  induction U as [|j U IH]; intros H; [reflexivity|]. inversion H as [|? ? [Hb Hm] H']; subst.
  cbn [map pprod SelZ fold_right]. fold (SelZ bases msgs U). rewrite IH by assumption. unfold at_.
  rewrite (nth_indep bases 1 0 Hb), (nth_indep msgs 1 0 Hm). reflexivity.
Qed.

Section EndToEnd.
  Variable CS : clsuite.
  Variable BP : bparams.

  (* the honest holder's commitment has the shape the issuance proof is about *)
  Lemma commit_with_pk_shape pk bases msgs U ds C ds' :
    0 < pk_N pk -> (length msgs <= length bases)%nat -> Forall (fun m => 0 <= m) msgs ->
    Forall (fun j => (N.to_nat j < length msgs)%nat) U -> Forall bits_ok ds ->
    commit_with_pk CS msgs pk bases (Some U) ds = Ok (C, ds') ->
    0 <= c_rand C /\
    c_value C = (pprod bases (map (fun i => nth (N.to_nat i) msgs 1) U) U * pk_b pk ^ c_rand C) mod pk_N pk.
  Proof.
    intros HN Hlen Hm HU Hd H. unfold commit_with_pk in H.
    mstep H r d1 Hr. mstep H cx d2 Hcx. mstep H br d3 Hbr. apply mret_ok in H as [-> _].
    apply (random_bits_nonneg _ _ _ _ Hd) in Hr as [Hr0 _].
    apply lift_ok in Hcx as [Hcx _]. apply lift_ok in Hbr as [Hbr _]. cbn [all_idx] in Hcx.
    rewrite pow_mod_nonneg in Hbr by assumption. inversion Hbr; subst br; clear Hbr.
    assert (Hpos : Forall (fun j => (N.to_nat j < length bases)%nat /\ (N.to_nat j < length msgs)%nat /\ 0 <= at_ msgs j) U).
    { eapply Forall_impl; [|exact HU]. intros j Hj. cbv beta in Hj. split; [lia|]. split; [exact Hj|].
      unfold at_. rewrite Forall_forall in Hm. apply Hm. apply nth_In. exact Hj. }
    destruct (prod_idx_sel (pk_N pk) HN bases msgs U 1 ltac:(lia) Hpos) as [cx' [Hcx' [Hcx0 Hcxe]]].
    rewrite Hcx in Hcx'. inversion Hcx'; subst cx'; clear Hcx'.
    cbn [c_rand c_value]. split; [exact Hr0|].
    rewrite rem_mod_nonneg; [| |exact HN].
    2:{ apply Z.mul_nonneg_nonneg; [assumption|apply Z.mod_pos_bound; exact HN]. }
    rewrite pprod_SelZ.
    2:{ eapply Forall_impl; [|exact Hpos]. intros j [? [? _]]. split; assumption. }
    change (eqm (pk_N pk) (cx * (pk_b pk ^ r mod pk_N pk)) (SelZ bases msgs U * pk_b pk ^ r)).
    apply (eqm_mul _ HN); [|apply Zmod_eqm]. eapply eqm_trans; [exact Hcxe|]. apply eqm_eq. ring.
  Qed.

  (* holder: commitment to the hidden attributes and the issuance proof (no trusted party); issuer: zkpok_verify.
     For every number of attributes (other than one) and every list U of hidden positions the issuer accepts. *)
  Theorem honest_issuance_proof_accepted pk bases msgs U ds C d1 p ds' :
    0 <= b_t BP -> 0 < pk_N pk ->
    Forall (unit (pk_N pk)) bases -> unit (pk_N pk) (pk_b pk) ->
    (length msgs <> 1)%nat -> (length msgs <= length bases)%nat -> Forall (fun m => 0 <= m) msgs ->
    Forall (fun j => (N.to_nat j < length msgs)%nat) U ->
    Forall bits_ok ds ->
    commit_with_pk CS msgs pk bases (Some U) ds = Ok (C, d1) ->
    zkpok_gen CS BP msgs C None pk bases None U d1 = Ok (p, ds') ->
    zkpok_verify CS BP p C None pk bases None U = Ok true.
  Proof.
    intros Ht HN Hbu Hb Hlen1 Hlen Hm HU Hd HC Hzk.
    destruct (commit_with_pk_shape pk bases msgs U ds C d1 HN Hlen Hm HU Hd HC) as [Hr HCs].
    pose proof (consumes_Forall _ bits_ok _ _ _ (consumes_commit_with_pk CS msgs pk bases (Some U)) HC Hd) as Hd1.
    eapply (zkpok_complete CS BP msgs C None pk bases None U d1 p ds'); try eassumption; [|exact I].
    intros i Hi. rewrite Forall_forall in HU, Hm. apply Hm. apply nth_In. apply HU. exact Hi.
  Qed.

  (* issuer + holder: the signature obtained by unblinding what blind_sign returned for the honest holder's commitment
     and the revealed attributes at the complementary positions is a valid signature on the whole attribute vector *)
  Theorem blind_issuance_valid pk sk bases msgs U ds0 C ds0' zk Ct ck ds b ds' :
    good_key pk sk ->
    Forall (fun a => Z.gcd a (pk_N pk) = 1) bases ->
    forallb (msg_in_range CS) msgs = true -> (length msgs <= length bases)%nat ->
    strictly_sorted U -> Forall (fun j => (N.to_nat j < length msgs)%nat) U ->
    Forall bits_ok ds0 -> commit_with_pk CS msgs pk bases (Some U) ds0 = Ok (C, ds0') ->
    Forall bits_ok ds ->
    blind_sign CS BP pk sk bases zk (Some (map (at_ msgs) (revealed_of U 0 (length msgs)))) C Ct ck U
               (Some (revealed_of U 0 (length msgs))) ds = Ok (b, ds') ->
    verify_multiattr CS (unblind_sign b C) pk bases msgs = Ok true.
  Proof.
    intros G Hb Hm Hlen HS HU Hd0 HC Hd H. pose proof G as [HN _ _ _ _].
    assert (Hmn : Forall (fun m => 0 <= m) msgs).
    { apply Forall_forall. intros m Hin. apply (msg_in_range_nonneg CS). rewrite forallb_forall in Hm. apply Hm; exact Hin. }
    destruct (honest_extension_commits_to_all CS pk bases msgs U ds0 C ds0' ltac:(lia) Hlen Hmn HS HU Hd0 HC)
      as [Hr [ext [Hext [Hext0 [_ HextC]]]]].
    eapply (blind_issue_complete CS BP pk sk bases zk (Some (map (at_ msgs) (revealed_of U 0 (length msgs)))) C Ct ck U
              (Some (revealed_of U 0 (length msgs))) ds b ds' msgs ext); eassumption.
  Qed.
End EndToEnd.
