(* C04 / C06: special soundness.  Two accepting transcripts that share the prover's first message (the recomputed
   commitments T1, T2 / Cbar) and differ in the challenge determine a witness, by the explicit formulas below:
   - commitment proof: an opening (s, m_1..m_M) of C over the blind generators;
   - signature proof: e, r1, r3 and the hidden scalars with  Bbar = D r1 - Abar e,  B = D r3  and hence
     (sk + e) (r3 Abar) = r1 B -- a BBS signature (r3/r1 Abar, e) on the disclosed + extracted messages whenever
     r1, r3 <> 0; r1 = 0 gives sk = -e and r3 = 0 gives B = O (a relation among the generators).
   Together with the Fiat-Shamir facts (core_proof_verify_accepts, proof_statement_binding) this is the extractor the
   soundness argument in the random-oracle model rewinds to. *)
From ZK Require Import Laws BaseLemmas ModelLemmas SignProofs Codec NoPanic ProofComplete Soundness.
Open Scope N_scope.

Section Ext.
  Context (E : env) (LW : Laws E).
  Notation S := (SO E).
  Notation P := (PR E).
  Notation Fd := (F S).
  Notation G1t := (@G1 S P).
  Notation G2t := (@G2 S P).
  Notation c := (cs E).

  Local Notation "0" := (f0 S).
  Local Notation "1" := (f1 S).
  Local Infix "+" := (fadd S).
  Local Infix "*" := (fmul S).
  Local Infix "-" := (fsub S).
  Local Infix "/" := (fdiv S).
  Local Notation "- x" := (fopp S x).
  Local Notation d1 := (dl1 E LW).
  Local Notation d2 := (dl2 E LW).

  Add Field Ffext : (Fth E LW).

  (* (a_i - b_i) / k, position by position *)
  Fixpoint quot (a b : list Fd) (k : Fd) : list Fd :=
    match a, b with x :: a', y :: b' => ((x - y) / k) :: quot a' b' k | _, _ => [] end.

  Lemma quot_length a b k : length a = length b -> length (quot a b k) = length a.
  Proof. revert b; induction a as [|x a IH]; intros [|y b] H; cbn in *; try discriminate; auto. Qed.

  Lemma dot_quot (G : list G1t) a b k : k <> 0 -> length a = length b ->
    k * dot E LW G (quot a b k) = dot E LW G a - dot E LW G b.
  Proof.
    intros Hk. revert a b. induction G as [|g G IH]; intros a b H.
    - destruct a, b; cbn; try ring; destruct (quot _ _ _); ring.
    - destruct a as [|x a], b as [|y b]; cbn in H; try discriminate; cbn [quot dot]; [ring|].
      transitivity ((x - y) * d1 g + k * dot E LW G (quot a b k)); [field; exact Hk|]. rewrite IH by lia. ring.
  Qed.

  (* ---------------------------------------------------------------- C06: the commitment proof *)
  Definition commit_Cbar (C G2_ : G1t) (Js : list G1t) (z : zkpok E) : G1t :=
    g1_add P (msm_acc E (g1_mul P (z_s_cap E z) G2_) Js (z_m_cap E z)) (g1_mul P (fopp S (z_chal E z)) C).

  Theorem commit_special_soundness C G2_ Js z z' :
    length (z_m_cap E z) = length (z_m_cap E z') ->
    commit_Cbar C G2_ Js z = commit_Cbar C G2_ Js z' ->
    z_chal E z <> z_chal E z' ->
    let k := z_chal E z - z_chal E z' in
    C = msm_acc E (g1_mul P ((z_s_cap E z - z_s_cap E z') / k) G2_) Js (quot (z_m_cap E z) (z_m_cap E z') k).
  Proof.
    intros Hl HC Hc k. assert (Hk : k <> 0).
    { unfold k. intros Hz. apply Hc. transitivity (z_chal E z - z_chal E z' + z_chal E z'); [ring|]. rewrite Hz. ring. }
    apply (L_dl1_inj E LW). apply (f_equal d1) in HC. unfold commit_Cbar in HC.
    rewrite !(L_dl1_add E LW), !(dl_msm E LW), !(L_dl1_mul E LW) in HC.
    rewrite (dl_msm E LW), (L_dl1_mul E LW).
    pose proof (dot_quot Js (z_m_cap E z) (z_m_cap E z') k Hk Hl) as Hq.
    set (X := (z_s_cap E z - z_s_cap E z') * d1 G2_ + (dot E LW Js (z_m_cap E z) - dot E LW Js (z_m_cap E z'))).
    assert (Hid : X - k * d1 C = (z_s_cap E z * d1 G2_ + dot E LW Js (z_m_cap E z) + - z_chal E z * d1 C)
                                 - (z_s_cap E z' * d1 G2_ + dot E LW Js (z_m_cap E z') + - z_chal E z' * d1 C)) by (unfold X, k; ring).
    rewrite HC in Hid.
    assert (HkC : k * d1 C = X) by (transitivity (X - (X - k * d1 C)); [ring|rewrite Hid; ring]).
    assert (Hmain : k * d1 C = k * ((z_s_cap E z - z_s_cap E z') / k * d1 G2_ + dot E LW Js (quot (z_m_cap E z) (z_m_cap E z') k))).
    { transitivity ((z_s_cap E z - z_s_cap E z') * d1 G2_ + k * dot E LW Js (quot (z_m_cap E z) (z_m_cap E z') k)); [|field; exact Hk].
      rewrite Hq. exact HkC. }
    transitivity (k * d1 C / k); [field; exact Hk|]. rewrite Hmain. field. exact Hk.
  Qed.

  (* ---------------------------------------------------------------- C04: the signature proof *)
  (* Two proofs with the same Abar, Bbar, D for the same statement whose recomputed T1, T2 coincide and whose
     challenges differ.  With k = c - c':
       e  = (e^ - e'^) / k,   r1 = - (r1^ - r1'^) / k,   r3 = - (r3^ - r3'^) / k,   m_j = (m^_j - m'^_j) / k
     satisfy   Bbar = D r1 - Abar e   and   Bv + sum_j H_j m_j = D r3   (B of the disclosed + extracted messages),
     hence, with the pairing equation Bbar = sk Abar:   (sk + e) r3 Abar = r1 (Bv + sum_j H_j m_j). *)
  Theorem proof_special_soundness pk p p' g header dm di api ir ir' :
    proof_verify_init E pk p g header dm di api = Ok ir ->
    proof_verify_init E pk p' g header dm di api = Ok ir' ->
    p_Abar E p = p_Abar E p' -> p_Bbar E p = p_Bbar E p' -> p_D E p = p_D E p' ->
    length (p_m_cap E p) = length (p_m_cap E p') ->
    i_T1 E ir = i_T1 E ir' -> i_T2 E ir = i_T2 E ir' ->
    p_chal E p <> p_chal E p' ->
    d1 (p_Abar E p) * d2 pk = d1 (p_Bbar E p) ->
    let k := p_chal E p - p_chal E p' in
    let e := (p_e_cap E p - p_e_cap E p') / k in
    let r1 := - ((p_r1_cap E p - p_r1_cap E p') / k) in
    let r3 := - ((p_r3_cap E p - p_r3_cap E p') / k) in
    let mu := quot (p_m_cap E p) (p_m_cap E p') k in
    exists Q1 Hd Hu,
      index (g_values E g) 0 = Ok Q1 /\
      get_at (skipn 1 (g_values E g)) di = Ok Hd /\
      (exists ui, slice (remaining (length (p_m_cap E p) + length di) di) 0 (length (p_m_cap E p)) = Ok ui /\
                  get_at (skipn 1 (g_values E g)) ui = Ok Hu) /\
      length mu = length (p_m_cap E p) /\
      let dB := d1 (msm_acc E (g1_add P (g_p1 E g) (g1_mul P (i_domain E ir) Q1)) Hd dm) + dot E LW Hu mu in
      d1 (p_Bbar E p) = r1 * d1 (p_D E p) - e * d1 (p_Abar E p) /\
      dB = r3 * d1 (p_D E p) /\
      (d2 pk + e) * (r3 * d1 (p_Abar E p)) = r1 * dB.
  Proof.
    intros I1 I2 HA HB HD Hl HT1 HT2 Hc Hpair k e r1 r3 mu.
    assert (Hk : k <> 0).
    { unfold k. intros Hz. apply Hc. transitivity (p_chal E p - p_chal E p' + p_chal E p'); [ring|]. rewrite Hz. ring. }
    unfold proof_verify_init in I1, I2. rewrite <- Hl, <- HA, <- HB, <- HD in I2.
    destruct (g1_eqb P (p_Abar E p) (g1_zero P) || g1_eqb P (p_Bbar E p) (g1_zero P) || g1_eqb P (p_D E p) (g1_zero P))%bool; [discriminate|].
    destruct (existsb _ di); [discriminate|].
    destruct (negb (Nat.eqb (length dm) (length di))); [discriminate|].
    destruct (negb (Nat.eqb (length (g_values E g)) (length (p_m_cap E p) + length di + 1))); [discriminate|].
    destruct (index (g_values E g) 0) as [Q1| | |] eqn:EQ1; cbn [bind] in I1, I2; try discriminate.
    destruct (calculate_domain E pk Q1 (skipn 1 (g_values E g)) header api) as [dom| | |]; cbn [bind] in I1, I2; try discriminate.
    destruct (get_at (skipn 1 (g_values E g)) di) as [Hd| | |] eqn:EHd; cbn [bind] in I1, I2; try discriminate.
    destruct (slice (remaining (length (p_m_cap E p) + length di) di) 0 (length (p_m_cap E p))) as [ui| | |] eqn:Eui; cbn [bind] in I1, I2; try discriminate.
    destruct (get_at (skipn 1 (g_values E g)) ui) as [Hu| | |] eqn:EHu; cbn [bind] in I1, I2; try discriminate.
    inversion I1; subst ir; clear I1. inversion I2; subst ir'; clear I2.
    cbn [i_T1 i_T2 i_domain] in *.
    exists Q1, Hd, Hu. split; [first [reflexivity|exact EQ1]|]. split; [first [reflexivity|exact EHd]|].
    split; [exists ui; split; [first [reflexivity|exact Eui]|first [reflexivity|exact EHu]]|].
    split; [unfold mu; apply quot_length; exact Hl|].
    apply (f_equal d1) in HT1. apply (f_equal d1) in HT2.
    rewrite !(L_dl1_add E LW), !(L_dl1_mul E LW) in HT1.
    repeat first [rewrite (dl_msm E LW) in HT2 | rewrite (L_dl1_add E LW) in HT2 | rewrite (L_dl1_mul E LW) in HT2].
    set (a := d1 (p_Abar E p)) in *. set (b := d1 (p_Bbar E p)) in *. set (d := d1 (p_D E p)) in *.
    set (bv := d1 (g_p1 E g) + dom * d1 Q1 + dot E LW Hd dm) in *.
    pose proof (dot_quot Hu (p_m_cap E p) (p_m_cap E p') k Hk Hl) as Hq. fold mu in Hq.
    cbn zeta. rewrite (dl_msm E LW), (L_dl1_add E LW), (L_dl1_mul E LW). fold bv.
    (* k b = - (e^ - e'^) a - (r1^ - r1'^) d *)
    assert (H1 : k * b = - (p_e_cap E p - p_e_cap E p') * a - (p_r1_cap E p - p_r1_cap E p') * d).
    { assert (Hid : k * b + (p_e_cap E p - p_e_cap E p') * a + (p_r1_cap E p - p_r1_cap E p') * d
                    = (p_chal E p * b + p_e_cap E p * a + p_r1_cap E p * d) - (p_chal E p' * b + p_e_cap E p' * a + p_r1_cap E p' * d)) by (unfold k; ring).
      rewrite HT1 in Hid.
      transitivity ((k * b + (p_e_cap E p - p_e_cap E p') * a + (p_r1_cap E p - p_r1_cap E p') * d)
                    - (p_e_cap E p - p_e_cap E p') * a - (p_r1_cap E p - p_r1_cap E p') * d); [ring|]. rewrite Hid. ring. }
    (* k (bv + dot Hu mu) = - (r3^ - r3'^) d *)
    assert (H2 : k * (bv + dot E LW Hu mu) = - (p_r3_cap E p - p_r3_cap E p') * d).
    { assert (Hid : k * bv + (p_r3_cap E p - p_r3_cap E p') * d + (dot E LW Hu (p_m_cap E p) - dot E LW Hu (p_m_cap E p'))
                    = (p_chal E p * bv + p_r3_cap E p * d + dot E LW Hu (p_m_cap E p))
                      - (p_chal E p' * bv + p_r3_cap E p' * d + dot E LW Hu (p_m_cap E p'))) by (unfold k; ring).
      rewrite HT2 in Hid. rewrite <- Hq in Hid.
      transitivity ((k * bv + (p_r3_cap E p - p_r3_cap E p') * d + k * dot E LW Hu mu) - (p_r3_cap E p - p_r3_cap E p') * d); [ring|].
      rewrite Hid. ring. }
    assert (G1 : b = r1 * d - e * a).
    { unfold r1, e. transitivity (k * b / k); [field; exact Hk|]. rewrite H1. field. exact Hk. }
    assert (G2 : bv + dot E LW Hu mu = r3 * d).
    { unfold r3. transitivity (k * (bv + dot E LW Hu mu) / k); [field; exact Hk|]. rewrite H2. field. exact Hk. }
    split; [exact G1|]. split; [exact G2|].
    rewrite G2. transitivity (r3 * (a * d2 pk + e * a)); [ring|]. rewrite Hpair. fold b. rewrite G1. ring.
  Qed.
End Ext.
