(* C16: the honest prover cannot produce a range proof for a value outside [rmin, rmax]: the scaled distance to the
   (tolerance-widened) bound is negative and the integer square root refuses it -- for every modulus, bases, interval,
   randomness and sequence of draws. *)
From ZK Require Import Cl ClArith ClSig ClMore ClGroup ClBoudot.
From Coq Require Import ZArith Lia Znumtheory Zpow_facts Zdiv List.
Import ListNotations.
Open Scope Z_scope.

Lemma sqrt_lt_pow2 w k : 0 <= w -> 0 <= k -> w < 2 ^ k -> Z.sqrt w < 2 ^ ((k + 1) / 2).
Proof.
  intros Hw Hk Hlt. apply Z.nle_gt. intros Hge.
  assert (Hh : 0 <= (k + 1) / 2) by (apply Z.div_pos; lia).
  assert (Hp : 0 < 2 ^ ((k + 1) / 2)) by (apply Z.pow_pos_nonneg; lia).
  pose proof (Z.sqrt_spec w Hw) as [Hs _].
  assert (H2 : 2 ^ ((k + 1) / 2) * 2 ^ ((k + 1) / 2) <= Z.sqrt w * Z.sqrt w) by nia.
  rewrite <- Z.pow_add_r in H2 by assumption.
  assert (Hk2 : k <= (k + 1) / 2 + (k + 1) / 2).
  { pose proof (Z.div_mod (k + 1) 2 ltac:(lia)). pose proof (Z.mod_pos_bound (k + 1) 2 ltac:(lia)). lia. }
  assert (2 ^ k <= 2 ^ ((k + 1) / 2 + (k + 1) / 2)) by (apply Z.pow_le_mono_r; lia).
  lia.
Qed.

Section R.
  Variable BP : bparams.
  Hypothesis Hlt : 0 <= b_l BP + b_t BP.

  (* the tolerance is smaller than one unit of the scaled interval *)
  Lemma tolerance_lt_unit w : 0 < w ->
    let T := 2 * (b_t BP + b_l BP + 1) + sig_bits w in
    two (b_l BP + b_t BP + T / 2 + 1) * Z.sqrt w < two T.
  Proof.
    intros Hw T. unfold two.
    set (k := sig_bits w). assert (Hk : k = Z.log2 w + 1) by (unfold k, sig_bits; destruct (Z.eqb_spec w 0); [lia|]; rewrite Z.abs_eq by lia; reflexivity).
    assert (Hk0 : 0 < k) by (pose proof (Z.log2_nonneg w); lia).
    assert (Hwk : w < 2 ^ k) by (rewrite Hk; apply Z.log2_spec; exact Hw).
    pose proof (sqrt_lt_pow2 w k ltac:(lia) ltac:(lia) Hwk) as Hs.
    assert (HT2 : T / 2 = b_t BP + b_l BP + 1 + k / 2).
    { unfold T. fold k. replace (2 * (b_t BP + b_l BP + 1) + k) with (k + (b_t BP + b_l BP + 1) * 2) by ring. rewrite Z.div_add by lia. ring. }
    rewrite HT2.
    assert (Hsum : k / 2 + (k + 1) / 2 = k).
    { pose proof (Z.div_mod k 2 ltac:(lia)). pose proof (Z.mod_pos_bound k 2 ltac:(lia)).
      pose proof (Z.div_mod (k + 1) 2 ltac:(lia)). pose proof (Z.mod_pos_bound (k + 1) 2 ltac:(lia)). lia. }
    assert (Hk2 : 0 <= k / 2) by (apply Z.div_pos; lia).
    assert (Hk3 : 0 <= (k + 1) / 2) by (apply Z.div_pos; lia).
    set (x := b_l BP + b_t BP + (b_t BP + b_l BP + 1 + k / 2) + 1).
    assert (Hx : 0 <= x) by (unfold x; lia).
    assert (HTx : T = x + (k + 1) / 2) by (unfold T, x; fold k; lia).
    rewrite HTx. rewrite Z.pow_add_r by assumption.
    assert (0 < 2 ^ x) by (apply Z.pow_pos_nonneg; lia).
    pose proof (Z.sqrt_nonneg w). nia.
  Qed.

  Theorem boudot_prove_below_fails value c g h n rmin rmax ds p ds' :
    value < rmin -> boudot_prove BP value c g h n rmin rmax ds <> Ok (p, ds').
  Proof.
    intros Hv H. unfold boudot_prove in H. destruct (Z.leb_spec rmax rmin) as [|Hr]; [discriminate|].
    set (T := range_T BP rmin rmax) in *.
    mstep H Ep d1 HEp. mstep H wt d2 Hwt. unfold proof_of_tolerance in Hwt.
    mstep Hwt aa e1 Haa. mstep Hwt bb e2 Hbb. mstep Hwt xa1 e3 Hxa.
    apply lift_ok in Haa as [Haa _]. apply lift_ok in Hxa as [Hxa _].
    unfold tol_aa, zsqrt in Haa. destruct (Z.ltb_spec (rmax - rmin) 0); [lia|]. cbn [bind] in Haa. inversion Haa; subst aa; clear Haa.
    unfold zsqrt in Hxa.
    pose proof (tolerance_lt_unit (rmax - rmin) ltac:(lia)) as Htol. cbn zeta in Htol.
    change (2 * (b_t BP + b_l BP + 1) + sig_bits (rmax - rmin)) with T in Htol.
    assert (H2T : 0 < two T) by (unfold two; apply Z.pow_pos_nonneg; [lia|]; unfold T, range_T, sig_bits; destruct (rmax - rmin =? 0); pose proof (Z.log2_nonneg (Z.abs (rmax - rmin))); lia).
    destruct (Z.ltb_spec (two T * value - (two T * rmin - two (b_l BP + b_t BP + T / 2 + 1) * Z.sqrt (rmax - rmin))) 0) as [|Hge]; [discriminate|].
    nia.
  Qed.

  Theorem boudot_prove_above_fails value c g h n rmin rmax ds p ds' :
    rmax < value -> boudot_prove BP value c g h n rmin rmax ds <> Ok (p, ds').
  Proof.
    intros Hv H. unfold boudot_prove in H. destruct (Z.leb_spec rmax rmin) as [|Hr]; [discriminate|].
    set (T := range_T BP rmin rmax) in *.
    mstep H Ep d1 HEp. mstep H wt d2 Hwt. unfold proof_of_tolerance in Hwt.
    mstep Hwt aa e1 Haa. mstep Hwt bb e2 Hbb. mstep Hwt xa1 e3 Hxa. mstep Hwt xb1 e4 Hxb.
    apply lift_ok in Hbb as [Hbb _]. apply lift_ok in Hxb as [Hxb _].
    unfold tol_bb, zsqrt in Hbb. destruct (Z.ltb_spec (rmax - rmin) 0); [lia|]. cbn [bind] in Hbb. inversion Hbb; subst bb; clear Hbb.
    unfold zsqrt in Hxb.
    pose proof (tolerance_lt_unit (rmax - rmin) ltac:(lia)) as Htol. cbn zeta in Htol.
    change (2 * (b_t BP + b_l BP + 1) + sig_bits (rmax - rmin)) with T in Htol.
    assert (H2T : 0 < two T) by (unfold two; apply Z.pow_pos_nonneg; [lia|]; unfold T, range_T, sig_bits; destruct (rmax - rmin =? 0); pose proof (Z.log2_nonneg (Z.abs (rmax - rmin))); lia).
    destruct (Z.ltb_spec (two T * rmax + two (b_l BP + b_t BP + T / 2 + 1) * Z.sqrt (rmax - rmin) - two T * value) 0) as [|Hge]; [discriminate|].
    nia.
  Qed.
End R.
