(* C04: the response scalars of a proof are not malleable.  Two accepted proofs for the same statement with the same
   challenge field have the same recomputed commitments T1, T2 -- or the challenge hash collides on two explicit different
   inputs.  Changing a single response (e^, r1^ or r3^) moves T1 or T2 (the points Abar and D are not the identity in an
   accepted proof), so such an edit -- in particular every bit flip inside those 96 octets that still decodes -- is
   rejected unless it exhibits a collision. *)
From ZK Require Import Laws BaseLemmas ModelLemmas SignProofs Codec NoPanic ProofComplete Soundness UpdateProofs Separation Binding Extractor.
Open Scope N_scope.

Section Mal.
  Context (E : env) (LW : Laws E).
  Notation S := (SO E).
  Notation P := (PR E).
  Notation Fd := (F S).
  Notation G1t := (@G1 S P).
  Notation G2t := (@G2 S P).

  Local Notation "0" := (f0 S).
  Local Infix "+" := (fadd S).
  Local Infix "*" := (fmul S).
  Local Infix "-" := (fsub S).
  Local Notation d1 := (dl1 E LW).

  Add Field Ffmal : (Fth E LW).

  Theorem proof_same_challenge_same_commitments pk p p' g header ph dm di api :
    core_proof_verify E pk p g header ph dm di api = Ok tt ->
    core_proof_verify E pk p' g header ph dm di api = Ok tt ->
    p_chal E p = p_chal E p' -> length (p_m_cap E p) = length (p_m_cap E p') ->
    len (option_default [] ph) <= usize_max ->
    N.of_nat (length (p_m_cap E p) + length di) <= usize_max ->
    exists ir ir',
      proof_verify_init E pk p g header dm di api = Ok ir /\ proof_verify_init E pk p' g header dm di api = Ok ir' /\
      ((i_T1 E ir = i_T1 E ir' /\ i_T2 E ir = i_T2 E ir') \/
       Collision (fun x => f_of_okm S (expand E x (api ++ c_h2s (cs E)) 48))
                 (challenge_octets E ir di dm ph) (challenge_octets E ir' di dm ph)).
  Proof.
    intros V1 V2 Hc Hl Hph Hfit.
    assert (Hfit' : N.of_nat (length (p_m_cap E p') + length di) <= usize_max) by (rewrite <- Hl; exact Hfit).
    destruct (core_proof_verify_accepts' E LW pk p g header ph dm di api Hfit V1) as [ir [I1 [C1 [Ldm [Fdi Bdi]]]]].
    destruct (core_proof_verify_accepts' E LW pk p' g header ph dm di api Hfit' V2) as [ir' [I2 [C2 _]]].
    exists ir, ir'. split; [exact I1|]. split; [exact I2|].
    destruct (list_eq_dec N.eq_dec (challenge_octets E ir di dm ph) (challenge_octets E ir' di dm ph)) as [Heq|Hneq].
    - left. apply (challenge_octets_inj E LW) in Heq; try assumption. tauto.
    - right. split; [exact Hneq|].
      unfold proof_challenge_calculate, hash_to_scalar in C1, C2.
      destruct (negb (Nat.eqb (length dm) (length di))); [discriminate|].
      destruct (Nat.ltb _ _); [discriminate|].
      inversion C1 as [E1]. inversion C2 as [E2]. rewrite E1, E2. exact Hc.
  Qed.

  Lemma nonzero_point a : a <> g1_zero P -> d1 a <> 0.
  Proof. intros Ha Hz. apply Ha. apply (L_dl1_inj E LW). rewrite Hz. symmetry. apply (L_dl1_zero E LW). Qed.

  Lemma mul_nonzero x y : x <> 0 -> y <> 0 -> x * y <> 0.
  Proof.
    intros Hx Hy Hz. apply Hy. transitivity (x * y * fdiv S (f1 S) x); [field; exact Hx|]. rewrite Hz. field. exact Hx.
  Qed.

  (* a proof that differs from an accepted proof only in e^ (or only in r1^, or only in r3^) *)
  Definition only_one_response_differs (p p' : pok E) : Prop :=
    p_Abar E p = p_Abar E p' /\ p_Bbar E p = p_Bbar E p' /\ p_D E p = p_D E p' /\ p_chal E p = p_chal E p' /\
    p_m_cap E p = p_m_cap E p' /\
    ((p_e_cap E p <> p_e_cap E p' /\ p_r1_cap E p = p_r1_cap E p' /\ p_r3_cap E p = p_r3_cap E p') \/
     (p_e_cap E p = p_e_cap E p' /\ p_r1_cap E p <> p_r1_cap E p' /\ p_r3_cap E p = p_r3_cap E p') \/
     (p_e_cap E p = p_e_cap E p' /\ p_r1_cap E p = p_r1_cap E p' /\ p_r3_cap E p <> p_r3_cap E p')).

  Theorem proof_response_edit_reduces pk p p' g header ph dm di api :
    core_proof_verify E pk p g header ph dm di api = Ok tt ->
    core_proof_verify E pk p' g header ph dm di api = Ok tt ->
    only_one_response_differs p p' ->
    len (option_default [] ph) <= usize_max ->
    N.of_nat (length (p_m_cap E p) + length di) <= usize_max ->
    exists ir ir',
      proof_verify_init E pk p g header dm di api = Ok ir /\ proof_verify_init E pk p' g header dm di api = Ok ir' /\
      Collision (fun x => f_of_okm S (expand E x (api ++ c_h2s (cs E)) 48))
                (challenge_octets E ir di dm ph) (challenge_octets E ir' di dm ph).
  Proof.
    intros V1 V2 [HA [HB [HD [Hc [Hm Hcase]]]]] Hph Hfit.
    destruct (proof_same_challenge_same_commitments pk p p' g header ph dm di api V1 V2 Hc ltac:(rewrite Hm; reflexivity) Hph Hfit)
      as [ir [ir' [I1 [I2 [[HT1 HT2]|Hcol]]]]]; [|exists ir, ir'; auto].
    exfalso.
    destruct (core_proof_verify_accepts E LW pk p g header ph dm di api V1) as [_ [_ [_ [_ [HAn [_ HDn]]]]]].
    pose proof (nonzero_point _ HAn) as Ha0. pose proof (nonzero_point _ HDn) as Hd0.
    unfold proof_verify_init in I1, I2. rewrite <- HA, <- HB, <- HD, <- Hc, <- Hm in I2.
    destruct (g1_eqb P (p_Abar E p) (g1_zero P) || g1_eqb P (p_Bbar E p) (g1_zero P) || g1_eqb P (p_D E p) (g1_zero P))%bool; [discriminate|].
    destruct (existsb _ di); [discriminate|].
    destruct (negb (Nat.eqb (length dm) (length di))); [discriminate|].
    destruct (negb (Nat.eqb (length (g_values E g)) (length (p_m_cap E p) + length di + 1))); [discriminate|].
    destruct (index (g_values E g) 0) as [Q1| | |]; cbn [bind] in I1, I2; try discriminate.
    destruct (calculate_domain E pk Q1 (skipn 1 (g_values E g)) header api) as [dom| | |]; cbn [bind] in I1, I2; try discriminate.
    destruct (get_at (skipn 1 (g_values E g)) di) as [Hd| | |]; cbn [bind] in I1, I2; try discriminate.
    destruct (slice (remaining (length (p_m_cap E p) + length di) di) 0 (length (p_m_cap E p))) as [ui| | |]; cbn [bind] in I1, I2; try discriminate.
    destruct (get_at (skipn 1 (g_values E g)) ui) as [Hu| | |]; cbn [bind] in I1, I2; try discriminate.
    inversion I1; subst ir; clear I1. inversion I2; subst ir'; clear I2. cbn [i_T1 i_T2] in HT1, HT2.
    apply (f_equal d1) in HT1. apply (f_equal d1) in HT2.
    rewrite !(L_dl1_add E LW), !(L_dl1_mul E LW) in HT1.
    repeat first [rewrite (dl_msm E LW) in HT2 | rewrite (L_dl1_add E LW) in HT2 | rewrite (L_dl1_mul E LW) in HT2].
    set (a := d1 (p_Abar E p)) in *. set (d := d1 (p_D E p)) in *.
    destruct Hcase as [[He [Hr1 Hr3]]|[[He [Hr1 Hr3]]|[He [Hr1 Hr3]]]].
    - rewrite <- Hr1 in HT1.
      assert (Hz : (p_e_cap E p - p_e_cap E p') * a = 0).
      { transitivity ((p_chal E p * d1 (p_Bbar E p) + p_e_cap E p * a + p_r1_cap E p * d) - (p_chal E p * d1 (p_Bbar E p) + p_e_cap E p' * a + p_r1_cap E p * d)); [ring|].
        rewrite HT1. ring. }
      revert Hz. apply mul_nonzero; [|exact Ha0]. intros Hz. apply He. transitivity (p_e_cap E p - p_e_cap E p' + p_e_cap E p'); [ring|]. rewrite Hz. ring.
    - rewrite <- He in HT1.
      assert (Hz : (p_r1_cap E p - p_r1_cap E p') * d = 0).
      { transitivity ((p_chal E p * d1 (p_Bbar E p) + p_e_cap E p * a + p_r1_cap E p * d) - (p_chal E p * d1 (p_Bbar E p) + p_e_cap E p * a + p_r1_cap E p' * d)); [ring|].
        rewrite HT1. ring. }
      revert Hz. apply mul_nonzero; [|exact Hd0]. intros Hz. apply Hr1. transitivity (p_r1_cap E p - p_r1_cap E p' + p_r1_cap E p'); [ring|]. rewrite Hz. ring.
    - set (bv := d1 (g_p1 E g) + dom * d1 Q1 + dot E LW Hd dm) in *.
      assert (Hz : (p_r3_cap E p - p_r3_cap E p') * d = 0).
      { transitivity ((p_chal E p * bv + p_r3_cap E p * d + dot E LW Hu (p_m_cap E p)) - (p_chal E p * bv + p_r3_cap E p' * d + dot E LW Hu (p_m_cap E p))); [ring|].
        rewrite HT2. ring. }
      revert Hz. apply mul_nonzero; [|exact Hd0]. intros Hz. apply Hr3. transitivity (p_r3_cap E p - p_r3_cap E p' + p_r3_cap E p'); [ring|]. rewrite Hz. ring.
  Qed.
End Mal.

(* ---------------------------------------------------------------- C06: the commitment proof *)
Section MalC.
  Context (E : env) (LW : Laws E).
  Notation S := (SO E).
  Notation P := (PR E).
  Notation Fd := (F S).
  Notation G1t := (@G1 S P).

  Local Notation "0" := (f0 S).
  Local Infix "+" := (fadd S).
  Local Infix "*" := (fmul S).
  Local Infix "-" := (fsub S).
  Local Notation d1 := (dl1 E LW).

  Add Field Ffmalc : (Fth E LW).

  Definition blind_challenge_octets (C Cbar : G1t) (gens : list G1t) : bytes :=
    i2osp8 (N.of_nat (length gens - 1)) ++ serialize_g1 E gens ++ g1_enc P C ++ g1_enc P Cbar.

  (* two accepted commitment proofs for the same C with the same challenge field: same recomputed Cbar, or a collision *)
  Theorem commit_same_challenge_same_Cbar C z z' bgs api :
    core_commit_verify E C z bgs api = Ok tt ->
    core_commit_verify E C z' bgs api = Ok tt ->
    z_chal E z = z_chal E z' -> length (z_m_cap E z) = length (z_m_cap E z') ->
    exists bg G2_ Js, get_range bgs 0 (length (z_m_cap E z) + 1) = Some bg /\ bg = G2_ :: Js /\
      (commit_Cbar E C G2_ Js z = commit_Cbar E C G2_ Js z' \/
       Collision (fun x => f_of_okm S (expand E x (api ++ c_h2s (cs E)) 48))
                 (blind_challenge_octets C (commit_Cbar E C G2_ Js z) bg) (blind_challenge_octets C (commit_Cbar E C G2_ Js z') bg)).
  Proof.
    intros V1 V2 Hc Hl.
    destruct (core_commit_verify_accepts E LW C z bgs api V1) as [bg [G2_ [Js [Hg [Hbg C1]]]]].
    destruct (core_commit_verify_accepts E LW C z' bgs api V2) as [bg' [G2' [Js' [Hg' [Hbg' C2]]]]].
    rewrite <- Hl in Hg'. rewrite Hg in Hg'. injection Hg' as Hbb. rewrite <- Hbb in Hbg', C2. rewrite Hbg in Hbg'.
    injection Hbg' as HG HJ. rewrite <- HG, <- HJ in C2. clear Hbb HG HJ.
    exists bg, G2_, Js. split; [exact Hg|]. split; [exact Hbg|].
    fold (commit_Cbar E C G2_ Js z) in C1. fold (commit_Cbar E C G2_ Js z') in C2.
    destruct (list_eq_dec N.eq_dec (blind_challenge_octets C (commit_Cbar E C G2_ Js z) bg) (blind_challenge_octets C (commit_Cbar E C G2_ Js z') bg)) as [Heq|Hneq].
    - left. unfold blind_challenge_octets in Heq. apply app_inv_head in Heq. apply app_inv_head in Heq. apply app_inv_head in Heq.
      apply (g1_enc_inj E LW). exact Heq.
    - right. split; [exact Hneq|].
      unfold calculate_blind_challenge, hash_to_scalar in C1, C2.
      destruct (Nat.eqb (length bg) 0); [discriminate|]. destruct (Nat.ltb _ _); [discriminate|].
      injection C1 as E1. injection C2 as E2. unfold blind_challenge_octets.
      transitivity (z_chal E z); [exact E1|]. rewrite Hc. symmetry. exact E2.
  Qed.
End MalC.
