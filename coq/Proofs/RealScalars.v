(* The scalar codec of the real environment (32 bytes big endian, strictly below the group order):
   the three codec premises of Laws are PROVED for it; the field laws are not (r prime is assumed). *)
From ZK Require Import RealEnv BaseLemmas.
Open Scope N_scope.

Lemma wf_bytesb_spec b : wf_bytesb b = true <-> wf_bytes b.
Proof.
  unfold wf_bytesb, wf_bytes. rewrite forallb_forall, Forall_forall.
  split; intros H x Hx; specialize (H x Hx); [apply N.ltb_lt|apply N.ltb_lt]; assumption.
Qed.

Lemma r_order_lt : r_order < 256 ^ N.of_nat 32.
Proof. reflexivity. Qed.

Theorem fr_dec_enc x : x < r_order -> fr_of_be (be_bytes_nat 32 x) = Some x.
Proof.
  intros Hx. unfold fr_of_be. rewrite be_bytes_nat_length.
  assert (Hw : wf_bytesb (be_bytes_nat 32 x) = true) by (apply wf_bytesb_spec, be_bytes_nat_wf).
  rewrite Hw. cbn [Nat.eqb andb].
  rewrite os2ip_be_bytes_nat by (pose proof r_order_lt; lia).
  destruct (N.ltb_spec x r_order); [reflexivity|lia].
Qed.

Theorem fr_enc_dec b x : fr_of_be b = Some x -> be_bytes_nat 32 x = b /\ x < r_order.
Proof.
  unfold fr_of_be. destruct (Nat.eqb (length b) 32) eqn:El; cbn [andb]; [|discriminate].
  destruct (wf_bytesb b) eqn:Ew; [|discriminate]. apply wf_bytesb_spec in Ew. apply Nat.eqb_eq in El.
  destruct (N.ltb_spec (os2ip b) r_order) as [Hlt|Hge]; intros HH; inversion HH; subst. split; [|assumption].
  rewrite <- El. apply be_bytes_nat_os2ip; assumption.
Qed.

Theorem fr_strict b : (length b <> 32%nat \/ r_order <= os2ip b) -> fr_of_be b = None.
Proof.
  unfold fr_of_be. intros [H|H].
  - apply Nat.eqb_neq in H. rewrite H. reflexivity.
  - destruct (_ && _)%bool; [|reflexivity]. destruct (N.ltb_spec (os2ip b) r_order) as [Hlt|Hge]; [lia|reflexivity].
Qed.

Theorem fr_enc_len x : length (be_bytes_nat 32 x) = 32%nat.
Proof. apply be_bytes_nat_length. Qed.
