(* C12: signature update over any history of updates. *)
From ZK Require Import Laws BaseLemmas ModelLemmas SignProofs NoPanic.
Open Scope N_scope.

(* replace position i of a list *)
Fixpoint upd_nth {A} (i : nat) (v : A) (l : list A) : list A :=
  match l, i with
  | [], _ => []
  | _ :: r, O => v :: r
  | x :: r, Datatypes.S i' => x :: upd_nth i' v r
  end.

Lemma upd_nth_length {A} i (v : A) l : length (upd_nth i v l) = length l.
Proof. revert i; induction l as [|x l IH]; intros [|i]; cbn; auto. Qed.

Lemma map_upd_nth {A B} (f : A -> B) i v l : map f (upd_nth i v l) = upd_nth i (f v) (map f l).
Proof. revert i; induction l as [|x l IH]; intros [|i]; cbn; auto. rewrite IH. reflexivity. Qed.

Section Upd.
  Context (E : env) (LW : Laws E).
  Notation S := (SO E).
  Notation P := (PR E).
  Notation Fd := (F S).
  Notation G1t := (@G1 S P).
  Notation G2t := (@G2 S P).

  Local Notation "0" := (f0 S).
  Local Notation "1" := (f1 S).
  Local Infix "+" := (fadd S).
  Local Infix "*" := (fmul S).
  Local Infix "-" := (fsub S).
  Local Notation "- x" := (fopp S x).
  Local Notation d1 := (dl1 E LW).
  Local Notation d2 := (dl2 E LW).

  Add Field Ffup : (Fth E LW).

  Lemma dot_upd_nth (H : list G1t) ms i v : (i < length ms)%nat -> (length ms <= length H)%nat ->
    dot E LW H (upd_nth i v ms) = dot E LW H ms + (v - nth i ms 0) * d1 (nth i H (g1_zero P)).
  Proof.
    revert ms i. induction H as [|h H IH]; intros [|m ms] i Hi Hl; cbn in Hi, Hl; try lia.
    destruct i as [|i]; cbn.
    - ring.
    - rewrite IH by lia. ring.
  Qed.

  (* The point B of a message-scalar vector, as the signer and the verifier compute it. *)
  Definition B_of (pk : G2t) (g : generators E) (header : option bytes) (ms : list Fd) (api : bytes)
    : outcome G1t :=
    if negb (Nat.eqb (length (g_values E g)) (length ms + 1)) then Err else
    let* Q1 := index (g_values E g) 0 in
    let H := skipn 1 (g_values E g) in
    let* domain := calculate_domain E pk Q1 H header api in
    Ok (compute_B E g Q1 H domain ms).

  (* core_verify says exactly: (dl2 pk + e) * A = B *)
  Lemma core_verify_iff pk s ms g header api :
    core_verify E pk s ms g header api = Ok tt <->
    exists B, B_of pk g header ms api = Ok B /\ (d2 pk + sig_e E s) * d1 (sig_A E s) = d1 B.
  Proof.
    unfold core_verify, B_of. set (HH := skipn 1 (g_values E g)).
    destruct (negb (Nat.eqb (length (g_values E g)) (length ms + 1))); [split; [discriminate|intros [B [H _]]; discriminate]|].
    destruct (index (g_values E g) 0) as [Q1| | |]; cbn [bind];
      try (split; [discriminate|intros [B [H _]]; discriminate]).
    destruct (calculate_domain E pk Q1 _ header api) as [dom| | |]; cbn [bind];
      try (split; [discriminate|intros [B [H _]]; discriminate]).
    destruct (pairing_eq P _ _ _ _) eqn:Ep.
    - split; [|reflexivity]. intros _. eexists. split; [reflexivity|].
      apply (L_pair E LW) in Ep. rewrite (L_dl2_add E LW), !(L_dl2_gen E LW) in Ep.
      transitivity (d1 (sig_A E s) * (d2 pk + sig_e E s)); [ring|]. rewrite Ep. ring.
    - split; [discriminate|]. intros [B [HB Heq]]. inversion HB; subst; clear HB. exfalso.
      assert (pairing_eq P (sig_A E s) (g2_add P pk (g2_mul_gen P (sig_e E s)))
                (compute_B E g Q1 HH dom ms) (g2_mul_gen P 1) = true); [|congruence].
      apply (L_pair E LW). rewrite (L_dl2_add E LW), !(L_dl2_gen E LW). rewrite <- Heq. ring.
  Qed.

  Lemma core_verify_cases pk s ms g header api :
    core_verify E pk s ms g header api = Ok tt \/ core_verify E pk s ms g header api = Err.
  Proof.
    unfold core_verify.
    destruct (negb (Nat.eqb (length (g_values E g)) (length ms + 1))) eqn:Hg; [auto|].
    apply negb_false_iff, Nat.eqb_eq in Hg.
    destruct (g_values E g) as [|Q1 H]; [cbn in Hg; lia|]. cbn [index nth_error unwrap bind].
    unfold calculate_domain, hash_to_scalar. destruct (Nat.ltb _ _); cbn [bind]; [auto|].
    destruct (pairing_eq _ _ _ _ _); auto.
  Qed.

  Lemma B_of_upd pk g header ms api B i v : B_of pk g header ms api = Ok B -> (i < length ms)%nat ->
    exists B', B_of pk g header (upd_nth i v ms) api = Ok B' /\
      d1 B' = d1 B + (v - nth i ms 0) * d1 (nth i (skipn 1 (g_values E g)) (g1_zero P)).
  Proof.
    unfold B_of. rewrite upd_nth_length. set (HH := skipn 1 (g_values E g)).
    destruct (negb (Nat.eqb (length (g_values E g)) (length ms + 1))) eqn:Hg; [discriminate|].
    apply negb_false_iff, Nat.eqb_eq in Hg.
    destruct (index (g_values E g) 0) as [Q1| | |]; cbn [bind]; try discriminate.
    destruct (calculate_domain E pk Q1 _ header api) as [dom| | |]; cbn [bind]; try discriminate.
    intros HB Hi. inversion HB; subst; clear HB. eexists. split; [reflexivity|].
    unfold compute_B. rewrite !(dl_msm E LW).
    rewrite dot_upd_nth; [ring|assumption|unfold HH; rewrite skipn_length; lia].
  Qed.

  (* ---------------------------------------------------------------- one step *)
  Definition hm (m : bytes) : Fd := f_of_okm S (expand E m (c_api_id (cs E) ++ c_map_msg_scalar (cs E)) 48).

  (* update_signature, given a generator set g = create(n + 1), computes A' with
     (sk + e) * A' = (sk + e) * A - H_i * old + H_i * new *)
  Lemma update_signature_spec s sk old_m new_m ui n s' :
    suite_ok E ->
    update_signature E s sk old_m new_m ui n = Ok s' ->
    exists g, gens_create E (N.to_nat n + 1) (c_api_id (cs E)) = Ok g /\ ui < n /\ sk + sig_e E s <> 0 /\
      sig_e E s' = sig_e E s /\ sig_A E s' <> g1_zero P /\
      (sk + sig_e E s) * d1 (sig_A E s') =
      (sk + sig_e E s) * d1 (sig_A E s) +
      (hm new_m - hm old_m) * d1 (nth (N.to_nat ui) (skipn 1 (g_values E g)) (g1_zero P)).
  Proof.
    intros [[Hm _] _]. unfold update_signature.
    unfold checked_add. destruct (N.leb_spec (n + 1) usize_max); cbn [try_opt bind]; [|discriminate].
    destruct (N.leb_spec n ui); [discriminate|].
    replace (N.to_nat (n + 1)) with (N.to_nat n + 1)%nat by lia.
    destruct (gens_create E (N.to_nat n + 1) (c_api_id (cs E))) as [g| | |] eqn:Eg; cbn [bind]; try discriminate.
    unfold uadd. destruct (N.leb_spec (ui + 1) usize_max); cbn [bind]; [|discriminate].
    destruct (len (g_values E g) <=? ui + 1); [discriminate|].
    unfold map_message_to_scalar. rewrite !(hash_to_scalar_ok E) by assumption. cbn [bind].
    fold (hm old_m) (hm new_m).
    pose proof (gens_create_len E _ _ _ Eg) as Hgl.
    rewrite slice_from_ok by lia. cbn [bind].
    destruct (nth_error (skipn 1 (g_values E g)) (N.to_nat ui)) as [Hi|] eqn:EHi; cbn [try_opt bind]; [|discriminate].
    destruct (finv_opt E (sk + sig_e E s)) as [inv|] eqn:Einv; cbn [try_opt bind]; [|discriminate].
    apply (finv_opt_some E LW) in Einv as [Hnz ->].
    destruct (g1_eqb P _ (g1_zero P)) eqn:EA; [discriminate|].
    intros Hinv; inversion Hinv; subst; clear Hinv. exists g. cbn [sig_e sig_A].
    repeat split; try assumption.
    - apply (g1_eqb_false E LW). exact EA.
    - rewrite (nth_error_nth _ _ (g1_zero P) EHi).
      rewrite (L_dl1_mul E LW), !(L_dl1_add E LW), !(L_dl1_mul E LW), (L_dl1_neg E LW). field. assumption.
  Qed.

  (* the step preserves validity: a valid signature on msgs becomes a valid signature, with the same
     exponent, on msgs[i := v] -- provided the caller states the current value as the old one *)
  Theorem update_step_valid sk s msgs header i v s' :
    suite_ok E ->
    verify E s (sk_to_pk E sk) (Some msgs) header = Ok tt ->
    update_signature E s sk (nth (N.to_nat i) msgs []) v i (len msgs) = Ok s' ->
    verify E s' (sk_to_pk E sk) (Some (upd_nth (N.to_nat i) v msgs)) header = Ok tt /\
    sig_e E s' = sig_e E s /\ sig_A E s' <> g1_zero P.
  Proof.
    intros Hs Hv Hu. pose proof Hs as [[Hm _] _].
    destruct (update_signature_spec _ _ _ _ _ _ _ Hs Hu) as [g [Eg [Hi [Hnz [He [HA Heq]]]]]].
    unfold len in *. rewrite Nat2N.id in Eg.
    split; [|split; assumption].
    unfold verify in *. cbn [option_default] in *.
    rewrite (messages_to_scalars_ok E) in * by assumption. cbn [bind] in *.
    rewrite upd_nth_length. rewrite Eg in *. cbn [bind] in *.
    apply core_verify_iff in Hv as [B [HB HvB]].
    apply core_verify_iff.
    fold hm in *. rewrite map_upd_nth.
    destruct (B_of_upd _ _ _ _ _ _ (N.to_nat i) (hm v) HB) as [B' [HB' HdB]]; [rewrite map_length; lia|].
    exists B'. split; [exact HB'|].
    rewrite HdB, <- HvB, He. unfold sk_to_pk. rewrite (L_dl2_gen E LW).
    rewrite Heq. rewrite (nth_indep _ 0 (hm [])) by (rewrite map_length; lia).
    rewrite (map_nth hm). reflexivity.
  Qed.

  (* ---------------------------------------------------------------- histories *)
  Fixpoint run_updates (s : signature E) (sk : Fd) (msgs : list bytes) (ups : list (N * bytes))
    : outcome (signature E * list bytes) :=
    match ups with
    | [] => Ok (s, msgs)
    | (i, v) :: r =>
      let* s' := update_signature E s sk (nth (N.to_nat i) msgs []) v i (len msgs) in
      run_updates s' sk (upd_nth (N.to_nat i) v msgs) r
    end.

  Fixpoint apply_updates (msgs : list bytes) (ups : list (N * bytes)) : list bytes :=
    match ups with
    | [] => msgs
    | (i, v) :: r => apply_updates (upd_nth (N.to_nat i) v msgs) r
    end.

  Theorem update_history_inv sk header ups : forall s msgs sk' msgs',
    suite_ok E ->
    verify E s (sk_to_pk E sk) (Some msgs) header = Ok tt ->
    run_updates s sk msgs ups = Ok (sk', msgs') ->
    msgs' = apply_updates msgs ups /\ length msgs' = length msgs /\
    sig_e E sk' = sig_e E s /\
    verify E sk' (sk_to_pk E sk) (Some msgs') header = Ok tt.
  Proof.
    induction ups as [|[i v] ups IH]; intros s msgs sk' msgs' Hs Hv Hr; cbn in Hr.
    - inversion Hr; subst. cbn. auto.
    - apply bind_ok in Hr as [s1 [Hu Hr]].
      destruct (update_step_valid _ _ _ _ _ _ _ Hs Hv Hu) as [Hv1 [He1 _]].
      destruct (IH _ _ _ _ Hs Hv1 Hr) as [Hm [Hl [He Hv']]].
      cbn [apply_updates]. rewrite upd_nth_length in Hl. rewrite He, He1. auto.
  Qed.

  (* the current signature is the one the key holder obtains for the current vector with the same
     exponent: A_k = B(msgs_k) / (sk + e) *)
  Theorem update_is_signers_signature sk pk header s msgs e' B :
    pk = sk_to_pk E sk ->
    verify E s pk (Some msgs) header = Ok tt ->
    sign_eB E (Some msgs) sk pk header = Ok (e', B) ->
    sk + sig_e E s <> 0 ->
    sig_A E s = g1_mul P (finv S (sk + sig_e E s)) B.
  Proof.
    intros -> Hv Hs Hnz. unfold verify, sign_eB in *. cbn [option_default] in *.
    destruct (messages_to_scalars E msgs (c_api_id (cs E))) as [ms| | |]; cbn [bind] in *; try discriminate.
    destruct (gens_create E _ _) as [g| | |]; cbn [bind] in *; try discriminate.
    apply core_verify_iff in Hv as [B0 [HB0 Hv]].
    unfold core_sign_eB in Hs. unfold B_of in HB0.
    destruct (negb _); [discriminate|].
    destruct (index (g_values E g) 0) as [Q1| | |]; cbn [bind] in *; try discriminate.
    destruct (calculate_domain E _ Q1 _ header _) as [dom| | |]; cbn [bind] in *; try discriminate.
    destruct (hash_to_scalar E _ _) as [e0| | |]; cbn [bind] in *; try discriminate.
    inversion Hs; subst. inversion HB0; subst.
    apply (L_dl1_inj E LW). rewrite (L_dl1_mul E LW). unfold sk_to_pk in Hv. rewrite (L_dl2_gen E LW) in Hv.
    rewrite <- Hv. field. assumption.
  Qed.

  (* when does a step fail?  never with a panic (C08); with Err only for an out-of-range position, or on the
     negligible set where sk + e = 0 or the new B is the identity *)
  Theorem update_oob s sk old_m new_m ui n : n <= ui -> update_signature E s sk old_m new_m ui n = Err.
  Proof.
    intros H. unfold update_signature. unfold checked_add.
    destruct (N.leb_spec (n + 1) usize_max); cbn [try_opt bind]; [|reflexivity].
    destruct (N.leb_spec n ui); [reflexivity|lia].
  Qed.

  Theorem update_step_total sk s msgs header i v :
    suite_ok E ->
    verify E s (sk_to_pk E sk) (Some msgs) header = Ok tt ->
    i < len msgs -> len msgs < usize_max - 1 -> sk + sig_e E s <> 0 ->
    (exists s', update_signature E s sk (nth (N.to_nat i) msgs []) v i (len msgs) = Ok s') \/
    (update_signature E s sk (nth (N.to_nat i) msgs []) v i (len msgs) = Err /\
     forall e' B, sign_eB E (Some (upd_nth (N.to_nat i) v msgs)) sk (sk_to_pk E sk) header = Ok (e', B) -> B = g1_zero P).
  Proof.
    intros Hs Hv Hi Hbig Hnz. pose proof Hs as [[Hm _] [p1 Hp1]].
    unfold update_signature. unfold checked_add.
    destruct (N.leb_spec (len msgs + 1) usize_max); cbn [try_opt bind]; [|lia].
    destruct (N.leb_spec (len msgs) i); [lia|].
    unfold len in *. replace (N.to_nat (N.of_nat (length msgs) + 1)) with (length msgs + 1)%nat by lia.
    unfold verify in Hv. cbn [option_default] in Hv.
    rewrite (messages_to_scalars_ok E) in Hv by assumption. cbn [bind] in Hv.
    destruct (gens_create E (length msgs + 1) (c_api_id (cs E))) as [g| | |] eqn:Eg; cbn [bind] in *; try discriminate.
    pose proof (gens_create_len E _ _ _ Eg) as Hgl.
    unfold uadd. destruct (N.leb_spec (i + 1) usize_max); cbn [bind]; [|lia].
    destruct (N.leb_spec (N.of_nat (length (g_values E g))) (i + 1)); [lia|].
    unfold map_message_to_scalar. rewrite !(hash_to_scalar_ok E) by assumption. cbn [bind].
    rewrite slice_from_ok by lia. cbn [bind].
    destruct (nth_error (skipn 1 (g_values E g)) (N.to_nat i)) as [Hi'|] eqn:EHi; cbn [try_opt bind].
    2:{ apply nth_error_None in EHi. rewrite skipn_length in EHi. lia. }
    rewrite (finv_opt_nz E LW) by assumption. cbn [try_opt bind].
    fold hm. fold (hm v).
    match goal with |- context [g1_eqb P ?X (g1_zero P)] => set (A' := X) end.
    destruct (g1_eqb P A' (g1_zero P)) eqn:EA; [right|left; eauto].
    split; [reflexivity|]. intros e' B HsB.
    apply (L_g1_eqb E LW) in EA.
    unfold sign_eB in HsB. cbn [option_default] in HsB.
    rewrite (messages_to_scalars_ok E) in HsB by assumption. cbn [bind] in HsB.
    rewrite upd_nth_length, Eg in HsB. cbn [bind] in HsB.
    apply core_verify_iff in Hv as [B0 [HB0 Hv0]].
    fold hm in *. rewrite map_upd_nth in HsB.
    destruct (B_of_upd _ _ _ _ _ _ (N.to_nat i) (hm v) HB0) as [B' [HB' HdB]]; [rewrite map_length; lia|].
    assert (B = B').
    { unfold core_sign_eB in HsB. unfold B_of in HB'. rewrite upd_nth_length, map_length in *.
      destruct (negb _); [discriminate|].
      destruct (index (g_values E g) 0) as [Q1| | |]; cbn [bind] in *; try discriminate.
      destruct (calculate_domain E _ Q1 _ header _) as [dom| | |]; cbn [bind] in *; try discriminate.
      destruct (hash_to_scalar E _ _) as [e0| | |]; cbn [bind] in *; try discriminate.
      inversion HsB; subst. inversion HB'; subst. reflexivity. }
    subst B'. apply (L_dl1_inj E LW). rewrite (L_dl1_zero E LW), HdB, <- Hv0.
    unfold sk_to_pk. rewrite (L_dl2_gen E LW).
    apply (f_equal d1) in EA. unfold A' in EA. rewrite (L_dl1_zero E LW) in EA.
    rewrite (L_dl1_mul E LW), !(L_dl1_add E LW), !(L_dl1_mul E LW), (L_dl1_neg E LW) in EA.
    rewrite (nth_error_nth _ _ (g1_zero P) EHi) in *.
    rewrite (nth_indep _ 0 (hm [])) by (rewrite map_length; lia). rewrite (map_nth hm).
    match type of EA with ?i * ?Y = 0 =>
      assert (HY : Y = 0) by (transitivity ((sk + sig_e E s) * (i * Y)); [field; assumption | rewrite EA; ring]) end.
    rewrite <- HY. unfold hm. ring.
  Qed.

  (* a wrong old value never yields a signature that verifies for the intended new vector (unless the two old
     values hash to the same scalar: a collision of the message-to-scalar hash) *)
  Theorem update_wrong_old sk s msgs header i v old' s' :
    suite_ok E ->
    verify E s (sk_to_pk E sk) (Some msgs) header = Ok tt ->
    update_signature E s sk old' v i (len msgs) = Ok s' ->
    hm old' <> hm (nth (N.to_nat i) msgs []) ->
    (forall g, gens_create E (length msgs + 1) (c_api_id (cs E)) = Ok g ->
               nth (N.to_nat i) (skipn 1 (g_values E g)) (g1_zero P) <> g1_zero P) ->
    verify E s' (sk_to_pk E sk) (Some (upd_nth (N.to_nat i) v msgs)) header = Err.
  Proof.
    intros Hs Hv Hu Hne HH. pose proof Hs as [[Hm _] _].
    destruct (update_signature_spec _ _ _ _ _ _ _ Hs Hu) as [g [Eg [Hi [Hnz [He [HA Heq]]]]]].
    unfold len in *. rewrite Nat2N.id in Eg. specialize (HH g Eg).
    unfold verify in *. cbn [option_default] in *.
    rewrite (messages_to_scalars_ok E) in * by assumption. cbn [bind] in *.
    rewrite upd_nth_length. rewrite Eg in *. cbn [bind] in *.
    apply core_verify_iff in Hv as [B [HB HvB]].
    fold hm in *. rewrite map_upd_nth.
    destruct (B_of_upd _ _ _ _ _ _ (N.to_nat i) (hm v) HB) as [B' [HB' HdB]]; [rewrite map_length; lia|].
    destruct (core_verify_cases (sk_to_pk E sk) s' (upd_nth (N.to_nat i) (hm v) (map hm msgs)) g header (c_api_id (cs E))) as [Ecv|Ecv]; [|exact Ecv].
    exfalso. apply core_verify_iff in Ecv as [B2 [HB2 Hv2]]. rewrite HB' in HB2. inversion HB2; subst B2.
    rewrite HdB, <- HvB, He in Hv2. unfold sk_to_pk in Hv2. rewrite (L_dl2_gen E LW) in Hv2.
    rewrite Heq in Hv2. rewrite (nth_indep _ 0 (hm [])) in Hv2 by (rewrite map_length; lia).
    rewrite (map_nth hm) in Hv2.
    set (hi := d1 (nth (N.to_nat i) (skipn 1 (g_values E g)) (g1_zero P))) in *.
    assert (H0 : (hm (nth (N.to_nat i) msgs []) - hm old') * hi = 0).
    { transitivity (((sk + sig_e E s) * d1 (sig_A E s) + (hm v - hm old') * hi) -
                    ((sk + sig_e E s) * d1 (sig_A E s) + (hm v - hm (nth (N.to_nat i) msgs [])) * hi)); [ring|].
      rewrite Hv2. ring. }
    apply (fmul_integral E LW) in H0 as [H0|H0].
    + apply Hne. transitivity (hm (nth (N.to_nat i) msgs []) - (hm (nth (N.to_nat i) msgs []) - hm old')); [ring|].
      rewrite H0. ring.
    + apply HH. apply (L_dl1_inj E LW). rewrite (L_dl1_zero E LW). exact H0.
  Qed.

  (* ---------------------------------------------------------------- path independence *)
  (* two signatures with the same exponent that verify for the same key, vector and header have the same point:
     A = B / (sk + e) is determined (no hypothesis on how they were obtained) *)
  Theorem verify_same_e_same_A sk header msgs s1 s2 :
    verify E s1 (sk_to_pk E sk) (Some msgs) header = Ok tt ->
    verify E s2 (sk_to_pk E sk) (Some msgs) header = Ok tt ->
    sig_e E s1 = sig_e E s2 ->
    sk + sig_e E s1 <> 0 ->
    sig_A E s1 = sig_A E s2.
  Proof.
    intros H1 H2 He Hnz. unfold verify in *. cbn [option_default] in *.
    destruct (messages_to_scalars E msgs (c_api_id (cs E))) as [ms| | |]; cbn [bind] in *; try discriminate.
    destruct (gens_create E _ _) as [g| | |]; cbn [bind] in *; try discriminate.
    apply core_verify_iff in H1 as [B1 [HB1 H1]]. apply core_verify_iff in H2 as [B2 [HB2 H2]].
    rewrite HB1 in HB2. inversion HB2; subst B2; clear HB2.
    unfold sk_to_pk in H1, H2. rewrite (L_dl2_gen E LW) in H1, H2. rewrite <- He in H2.
    apply (L_dl1_inj E LW).
    transitivity (finv S (sk + sig_e E s1) * ((sk + sig_e E s1) * d1 (sig_A E s1))); [field; assumption|].
    rewrite H1, <- H2. field; assumption.
  Qed.

  (* the result of a history depends only on the vector it ends in: two update histories from the same valid signature that
     end in the same vector end in the same signature (point and exponent) *)
  Theorem update_path_independent sk header s msgs ups1 ups2 sa ma sb mb :
    suite_ok E ->
    verify E s (sk_to_pk E sk) (Some msgs) header = Ok tt ->
    run_updates s sk msgs ups1 = Ok (sa, ma) ->
    run_updates s sk msgs ups2 = Ok (sb, mb) ->
    apply_updates msgs ups1 = apply_updates msgs ups2 ->
    sk + sig_e E s <> 0 ->
    sig_A E sa = sig_A E sb /\ sig_e E sa = sig_e E sb.
  Proof.
    intros Hs Hv Ha Hb Heq Hnz.
    destruct (update_history_inv _ _ _ _ _ _ _ Hs Hv Ha) as [Hma [_ [Hea Hva]]].
    destruct (update_history_inv _ _ _ _ _ _ _ Hs Hv Hb) as [Hmb [_ [Heb Hvb]]].
    assert (Hm : mb = ma) by congruence. rewrite Hm in Hvb.
    split; [|congruence].
    apply (verify_same_e_same_A sk header ma); [exact Hva|exact Hvb|congruence|rewrite Hea; exact Hnz].
  Qed.

  (* undoing: a history that ends in the original vector returns the original signature *)
  Corollary update_undo sk header s msgs ups sa ma :
    suite_ok E ->
    verify E s (sk_to_pk E sk) (Some msgs) header = Ok tt ->
    run_updates s sk msgs ups = Ok (sa, ma) ->
    apply_updates msgs ups = msgs ->
    sk + sig_e E s <> 0 ->
    sig_A E sa = sig_A E s /\ sig_e E sa = sig_e E s.
  Proof.
    intros Hs Hv Ha Heq Hnz.
    apply (update_path_independent sk header s msgs ups [] sa ma s msgs); auto.
  Qed.

  (* ---------------------------------------------------------------- histories never get stuck *)
  (* a history of in-range updates from a valid signature returns a signature -- unless at some step k the signer's own B for the
     vector reached there is the identity (the negligible event on which signing that vector fails as well) *)
  Theorem update_history_total sk header ups : forall s msgs,
    suite_ok E ->
    verify E s (sk_to_pk E sk) (Some msgs) header = Ok tt ->
    Forall (fun u : N * bytes => fst u < len msgs) ups ->
    len msgs < usize_max - 1 -> sk + sig_e E s <> 0 ->
    (exists s' msgs', run_updates s sk msgs ups = Ok (s', msgs')) \/
    (run_updates s sk msgs ups = Err /\
     exists k, (k < length ups)%nat /\
       forall e' B, sign_eB E (Some (apply_updates msgs (firstn (Datatypes.S k) ups))) sk (sk_to_pk E sk) header = Ok (e', B) -> B = g1_zero P).
  Proof.
    induction ups as [|[i v] ups IH]; intros s msgs Hs Hv Hall Hbig Hnz.
    - left. eexists. eexists. reflexivity.
    - inversion Hall as [|u l Hi Hrest]; subst. cbn [fst] in Hi.
      cbn [run_updates].
      destruct (update_step_total sk s msgs header i v Hs Hv Hi Hbig Hnz) as [[s1 Hu]|[Hu HB]].
      + rewrite Hu. cbn [bind].
        destruct (update_step_valid _ _ _ _ _ _ _ Hs Hv Hu) as [Hv1 [He1 _]].
        assert (Hlen : len (upd_nth (N.to_nat i) v msgs) = len msgs) by (unfold len; rewrite upd_nth_length; reflexivity).
        destruct (IH s1 (upd_nth (N.to_nat i) v msgs) Hs Hv1) as [Hok|[Herr [k [Hk HBk]]]].
        * rewrite Hlen. exact Hrest.
        * rewrite Hlen. exact Hbig.
        * rewrite He1. exact Hnz.
        * left. exact Hok.
        * right. split; [exact Herr|]. exists (Datatypes.S k). split; [cbn [length]; lia|].
          intros e' B. cbn [firstn apply_updates]. apply HBk.
      + right. rewrite Hu. cbn [bind]. split; [reflexivity|]. exists 0%nat. split; [cbn [length]; lia|].
        intros e' B. cbn [firstn apply_updates]. apply HB.
  Qed.

End Upd.
