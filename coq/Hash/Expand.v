(* RFC 9380 expand_message_xmd (SHA-256) and expand_message_xof (SHAKE-256), including the
   oversize-DST rule, as implemented by elliptic-curve 0.13 (`ExpandMsgXmd`, `ExpandMsgXof`).
   Defined for 0 < len <= 8160 (the callers in zkryptium always pass 48). *)
From Coq Require Import NArith List.
From ZK Require Import Sha256 Shake256.
Import ListNotations.
Open Scope N_scope.

Definition oversize_salt : list N :=  (* "H2C-OVERSIZE-DST-" *)
  [72;50;67;45;79;86;69;82;83;73;90;69;45;68;83;84;45].

Definition xorb (a b : list N) := map (fun p => N.lxor (fst p) (snd p)) (combine a b).
Fixpoint xmd_blocks (n : nat) (i : N) (b0 bprev dstp : list N) : list N :=
  match n with
  | O => []
  | S n' => let bi := sha256 (xorb b0 bprev ++ [i] ++ dstp) in
            bi ++ xmd_blocks n' (i + 1) b0 bi dstp
  end.
Definition be2 (n : nat) : list N := [N.of_nat (Nat.div n 256); N.of_nat (Nat.modulo n 256)].

Definition expand_xmd (msg dst : list N) (outlen : nat) : list N :=
  let dst := if Nat.ltb 255 (length dst) then sha256 (oversize_salt ++ dst) else dst in
  let ell := Nat.div (outlen + 31) 32 in
  let dstp := dst ++ [N.of_nat (length dst)] in
  let b0 := sha256 (repeat 0 64 ++ msg ++ be2 outlen ++ [0] ++ dstp) in
  let b1 := sha256 (b0 ++ [1] ++ dstp) in
  firstn outlen (b1 ++ xmd_blocks (ell - 1) 2 b0 b1 dstp).

Definition expand_xof (msg dst : list N) (outlen : nat) : list N :=
  let dst := if Nat.ltb 255 (length dst) then shake256 (oversize_salt ++ dst) 32 else dst in
  shake256 (msg ++ be2 outlen ++ dst ++ [N.of_nat (length dst)]) outlen.
