(* Keccak-f[1600] and SHAKE-256 (FIPS 202) over lists of bytes, executable. *)
From Coq Require Import NArith List.
Import ListNotations.
Open Scope N_scope.

Definition m64 := 0xFFFFFFFFFFFFFFFF.
Definition rotl (x n : N) :=
  if n =? 0 then x else N.land (N.lor (N.shiftl x n) (N.shiftr x (64 - n))) m64.
Definition RC : list N := [0x1;0x8082;0x800000000000808a;0x8000000080008000;0x808b;0x80000001;
  0x8000000080008081;0x8000000000008009;0x8a;0x88;0x80008009;0x8000000a;0x8000808b;
  0x800000000000008b;0x8000000000008089;0x8000000000008003;0x8000000000008002;0x8000000000000080;
  0x800a;0x800000008000000a;0x8000000080008081;0x8000000000008080;0x80000001;0x8000000080008008].
Definition ROT : list N := [0;1;62;28;27;36;44;6;55;20;3;10;43;25;39;41;45;15;21;8;18;2;61;56;14].
Definition SRC : list nat := [0;6;12;18;24;3;9;10;16;22;1;7;13;19;20;4;5;11;17;23;2;8;14;15;21]%nat.
Definition nthN (l : list N) (i : nat) := nth i l 0.
Definition xor5 (a : list N) (x : nat) :=
  N.lxor (N.lxor (N.lxor (N.lxor (nthN a x) (nthN a (x+5)%nat)) (nthN a (x+10)%nat))
         (nthN a (x+15)%nat)) (nthN a (x+20)%nat).
Definition kround (a : list N) (rc : N) : list N :=
  let c := map (xor5 a) (seq 0%nat 5%nat) in
  let d := map (fun x : nat => N.lxor (nthN c (Nat.modulo (x+4) 5))
                                   (rotl (nthN c (Nat.modulo (x+1) 5)) 1)) (seq 0%nat 5%nat) in
  let a1 := map (fun i : nat => N.lxor (nthN a i) (nthN d (Nat.modulo i 5))) (seq 0%nat 25%nat) in
  let b := map (fun i : nat => let s := nth i SRC 0%nat in rotl (nthN a1 s) (nthN ROT s))
               (seq 0%nat 25%nat) in
  let a2 := map (fun i : nat => let x := Nat.modulo i 5 in let y := Nat.div i 5 in
              N.lxor (nthN b i) (N.land (N.lxor (nthN b (Nat.modulo (x+1) 5 + 5*y)%nat) m64)
                                        (nthN b (Nat.modulo (x+2) 5 + 5*y)%nat))) (seq 0%nat 25%nat) in
  match a2 with h :: t => N.lxor h rc :: t | [] => [] end.
Definition keccakf (a : list N) := fold_left kround RC a.
Fixpoint le_lane (bs : list N) (k : nat) : N :=
  match k, bs with S k', b :: r => b + 256 * le_lane r k' | _, _ => 0 end.
Fixpoint lanes (n : nat) (bs : list N) : list N :=
  match n with O => [] | S n' => le_lane bs 8%nat :: lanes n' (skipn 8%nat bs) end.
Definition absorb (st blk : list N) : list N :=
  keccakf (map (fun p => N.lxor (fst p) (snd p)) (combine st (lanes 17 blk ++ repeat 0 8%nat))).
Fixpoint blocks (fuel : nat) (bs : list N) : list (list N) :=
  match fuel with
  | O => []
  | S f => match bs with [] => [] | _ => firstn 136%nat bs :: blocks f (skipn 136%nat bs) end
  end.
Definition kpad (msg : list N) : list N :=
  let q := (136 - Nat.modulo (length msg) 136)%nat in
  if Nat.eqb q 1%nat then msg ++ [0x9F] else msg ++ [0x1F] ++ repeat 0 (q - 2)%nat ++ [0x80].
Definition lane_bytes (x : N) : list N :=
  map (fun i => N.land (N.shiftr x (8 * N.of_nat i)) 255) (seq 0%nat 8%nat).
Fixpoint squeeze (fuel : nat) (st : list N) (need : nat) : list N :=
  match fuel with
  | O => []
  | S f =>
    let out := firstn 136%nat (flat_map lane_bytes st) in
    if Nat.leb need 136%nat then firstn need out else out ++ squeeze f (keccakf st) (need - 136)%nat
  end.
Definition shake256 (msg : list N) (outlen : nat) : list N :=
  let p := kpad msg in
  let st := fold_left absorb (blocks (S (length p)) p) (repeat 0 25%nat) in
  squeeze (S outlen) st outlen.
