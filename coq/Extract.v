(* Extraction of the executable model with the real environment.  Entry points have
   first-order types: primitive-server functions, suite selector, byte strings. *)
From ZK Require Import RealEnv Consts ClOps ClConsts.
From Coq Require Import ExtrOcamlBasic ExtrOcamlZBigInt.
(* three additional mappings (bitwise operations used by the Gallina SHA-256 / Keccak);
   listed in the trusted base, cross-checked by the in-Coq re-evaluation of samples *)
Extract Constant N.land => "Big_int_Z.and_big_int".
Extract Constant N.lor => "Big_int_Z.or_big_int".
Extract Constant N.lxor => "Big_int_Z.xor_big_int".

Section R.
  Variable p_g1add : bytes -> bytes -> bytes.
  Variable p_g1neg : bytes -> bytes.
  Variable p_g1mul : bytes -> bytes -> bytes.
  Variable p_g1dec : bytes -> bool.
  Variable p_h2c : bytes -> bytes -> bytes.
  Variable p_g2mulgen : bytes -> bytes.
  Variable p_g2add : bytes -> bytes -> bytes.
  Variable p_g2dec : bytes -> bool.
  Variable p_g2unc : bytes -> bytes.
  Variable p_g2cmp : bytes -> option bytes.
  Variable p_pair : bytes -> bytes -> bytes -> bytes -> bool.
  Variable shake : bool.

  Definition RE : env :=
    real_env p_g1add p_g1neg p_g1mul p_g1dec p_h2c p_g2mulgen p_g2add p_g2dec p_g2unc p_g2cmp
             p_pair
             (if shake then shake_expander_kind else sha_expander_kind)
             (if shake then shake_suite else sha_suite).

  Definition r_keygen := op_keygen RE.
  Definition r_keyrandom := op_keyrandom RE.
  Definition r_sk2pk := op_sk2pk RE.
  Definition r_gens := op_gens RE.
  Definition r_h2s := op_h2s RE.
  Definition r_m2s := op_m2s RE.
  Definition r_ms2s := op_ms2s RE.
  Definition r_sign := op_sign RE.
  Definition r_verify := op_verify RE.
  Definition r_update := op_update RE.
  Definition r_proofgen a b c d e f (rho : list N) := op_proofgen RE a b c d e f rho.
  Definition r_proofverify := op_proofverify RE.
  Definition r_proofverify_raw := op_proofverify_raw RE.
  Definition r_commit a (rho : list N) := op_commit RE a rho.
  Definition r_dvc := op_dvc RE.
  Definition r_blindsign := op_blindsign RE.
  Definition r_blindverify := op_blindverify RE.
  Definition r_prep := op_prep RE.
  Definition r_blindproofgen a b c d e f g h i (rho : list N) :=
    op_blindproofgen RE a b c d e f g h i rho.
  Definition r_blindproofverify := op_blindproofverify RE.
  Definition r_dec_pk := op_dec_pk RE.
  Definition r_dec_sk := op_dec_sk RE.
  Definition r_dec_sig := op_dec_sig RE.
  Definition r_dec_proof := op_dec_proof RE.
  Definition r_dec_zkpok := op_dec_zkpok RE.
  Definition r_dec_commit := op_dec_commit RE.
  Definition r_dec_blind := op_dec_blind RE.
  Definition r_dec_pkxy := op_dec_pkxy RE.
  Definition r_dec_pk2xy := op_dec_pk2xy RE.
End R.


(* ---- CL03 entry points: suite selector 0 = toy, 4 = toy2, 5 = micro, 6 = toy3 (harness), 1..3 = the shipped suites ---- *)
Definition cl_suite (k : N) : clsuite :=
  match k with 0%N => toy_suite | 1%N => cl1024_suite | 2%N => cl2048_suite | 4%N => toy2_suite | 5%N => micro_suite | 6%N => toy3_suite | _ => cl3072_suite end.
Definition c_params k := o_params (cl_suite k).
Definition c_map (m : bytes) := o_map m.
Definition c_keygen k := o_keygen (cl_suite k).
Definition c_bases := o_bases.
Definition c_cpk k := o_cpk (cl_suite k).
Definition c_sign k := o_sign (cl_suite k).
Definition c_sign1 k := o_sign1 (cl_suite k).
Definition c_verify k := o_verify (cl_suite k).
Definition c_verify1 k := o_verify1 (cl_suite k).
Definition c_disclose := o_disclose.
Definition c_sigcodec k := o_sigcodec (cl_suite k).
Definition c_sigfrombytes k := o_sigfrombytes (cl_suite k).
Definition c_pkcodec k := o_pkcodec (cl_suite k).
Definition c_pkfrombytes k := o_pkfrombytes (cl_suite k).
Definition c_skcodec k := o_skcodec (cl_suite k).
Definition c_commit k := o_commit (cl_suite k).
Definition c_commitcpk k := o_commitcpk (cl_suite k).
Definition c_extend := o_extend.
Definition c_zkgen k := o_zkgen (cl_suite k) boudot_params.
Definition c_zkver k := o_zkver (cl_suite k) boudot_params.
Definition c_blindsign k := o_blindsign (cl_suite k) boudot_params.
Definition c_unblind := o_unblind.
Definition c_update := o_update.
Definition c_spokgen k := o_spokgen (cl_suite k) boudot_params.
Definition c_spokver k := o_spokver (cl_suite k) boudot_params.
Definition c_rpprove := o_rpprove boudot_params.
Definition c_rpverify := o_rpverify boudot_params.
Definition c_randbits := o_randbits.
Definition c_randint := o_randint.
Definition c_randnumber := o_randnumber.
Definition c_randprime := o_randprime.
Definition c_randqr := o_randqr.
Definition c_prim := o_prim.

Definition scalar_of_be (b : bytes) : option N := fr_of_be b.

Extraction "model.ml"
  r_keygen r_keyrandom r_sk2pk r_gens r_h2s r_m2s r_ms2s r_sign r_verify r_update r_proofgen
  r_proofverify r_proofverify_raw r_commit r_dvc r_blindsign r_blindverify r_prep r_blindproofgen r_blindproofverify
  r_dec_pk r_dec_sk r_dec_sig r_dec_proof r_dec_zkpok r_dec_commit r_dec_blind r_dec_pkxy
  r_dec_pk2xy scalar_of_be N.of_nat N.to_nat
  c_params c_map c_keygen c_bases c_cpk c_sign c_sign1 c_verify c_verify1 c_disclose c_sigcodec c_sigfrombytes c_pkcodec
  c_pkfrombytes c_skcodec c_commit c_commitcpk c_extend c_zkgen c_zkver c_blindsign c_unblind c_update c_spokgen c_spokver
  c_rpprove c_rpverify c_randbits c_randint c_randnumber c_randprime c_randqr c_prim.
