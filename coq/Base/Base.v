(* Base: byte strings, Rust-style outcomes (Ok / Err / Panic / NoDraw), usize arithmetic,
   slices, I2OSP / OS2IP.  Definitions only; lemmas live in Proofs/. *)
From Coq Require Export List NArith ZArith Bool Lia.
Export ListNotations.
Open Scope N_scope.

Definition bytes := list N.             (* well-formed when every element is < 256 *)
Definition wf_bytes (b : bytes) : Prop := Forall (fun x => x < 256) b.
Definition wf_bytesb (b : bytes) : bool := forallb (fun x => x <? 256) b.

(* ---------------------------------------------------------------------------------- *)
(* Outcomes of a Rust call: a value, an Err(_) (kinds are not modelled), a panic, or the
   model-only value NoDraw (the list of random draws handed to the model was exhausted). *)
Inductive outcome (A : Type) : Type :=
| Ok (a : A) | Err | Panic | NoDraw.
Arguments Ok {A} a. Arguments Err {A}. Arguments Panic {A}. Arguments NoDraw {A}.

Definition bind {A B} (x : outcome A) (f : A -> outcome B) : outcome B :=
  match x with Ok a => f a | Err => Err | Panic => Panic | NoDraw => NoDraw end.
Notation "'let*' x ':=' e 'in' k" := (bind e (fun x => k))
  (at level 200, x pattern, e at level 100, k at level 200, right associativity).
Definition ret {A} (a : A) : outcome A := Ok a.

(* Option -> outcome: `?` on a Result / ok_or(..)?  gives Err; `.unwrap()` gives Panic *)
Definition try_opt {A} (o : option A) : outcome A := match o with Some a => Ok a | None => Err end.
Definition unwrap {A} (o : option A) : outcome A := match o with Some a => Ok a | None => Panic end.
(* result.is_ok() style demotion of any failure into Err is NOT provided on purpose: a panic
   stays a panic. *)

Definition is_ok {A} (x : outcome A) : bool := match x with Ok _ => true | _ => false end.
Definition is_panic {A} (x : outcome A) : bool := match x with Panic => true | _ => false end.

Fixpoint mapM {A B} (f : A -> outcome B) (l : list A) : outcome (list B) :=
  match l with
  | [] => Ok []
  | a :: r => let* b := f a in let* bs := mapM f r in Ok (b :: bs)
  end.

(* ---------------------------------------------------------------------------------- *)
(* usize: 64-bit; arithmetic traps on overflow (the build under test has overflow checks) *)
Definition usize_max : N := 18446744073709551615.
Definition uadd (a b : N) : outcome N := if a + b <=? usize_max then Ok (a + b) else Panic.
Definition usub (a b : N) : outcome N := if b <=? a then Ok (a - b) else Panic.
Definition checked_sub (a b : N) : option N := if b <=? a then Some (a - b) else None.
Definition checked_add (a b : N) : option N := if a + b <=? usize_max then Some (a + b) else None.
Definition len {A} (l : list A) : N := N.of_nat (length l).

(* ---------------------------------------------------------------------------------- *)
(* Slices.  &l[a..b] panics when a > b or b > len; l.get(a..b) returns None instead. *)
Definition sub {A} (l : list A) (a b : nat) : list A := firstn (b - a) (skipn a l).
Definition slice {A} (l : list A) (a b : nat) : outcome (list A) :=
  if (Nat.leb a b && Nat.leb b (length l))%bool then Ok (sub l a b) else Panic.
Definition slice_from {A} (l : list A) (a : nat) : outcome (list A) :=
  if Nat.leb a (length l) then Ok (skipn a l) else Panic.
Definition get_range {A} (l : list A) (a b : nat) : option (list A) :=
  if (Nat.leb a b && Nat.leb b (length l))%bool then Some (sub l a b) else None.
Definition index {A} (l : list A) (i : nat) : outcome A := unwrap (nth_error l i).

(* chunks_exact(n): full chunks only, remainder dropped *)
Fixpoint chunks_fuel {A} (fuel : nat) (n : nat) (l : list A) : list (list A) :=
  match fuel with
  | O => []
  | S f => if Nat.leb n (length l) then firstn n l :: chunks_fuel f n (skipn n l) else []
  end.
Definition chunks_exact {A} (n : nat) (l : list A) : list (list A) := chunks_fuel (length l) n l.

(* ---------------------------------------------------------------------------------- *)
(* Integers <-> octets (big endian) *)
Fixpoint be_bytes_nat (n : nat) (x : N) : bytes :=
  match n with
  | O => []
  | S n' => be_bytes_nat n' (x / 256) ++ [x mod 256]
  end.
Definition os2ip (b : bytes) : N := fold_left (fun acc x => acc * 256 + x) b 0.
Fixpoint os2ip_le (b : bytes) : N := match b with [] => 0 | x :: r => x + 256 * os2ip_le r end.

(* i2osp::<8>(x) for a usize never fails; i2osp::<2>(x) asserts x < 65536 *)
Definition i2osp8 (x : N) : bytes := be_bytes_nat 8 x.
Definition i2osp2 (x : N) : outcome bytes := if x <? 65536 then Ok (be_bytes_nat 2 x) else Panic.

Definition bytes_eqb (a b : bytes) : bool :=
  (Nat.eqb (length a) (length b) && forallb (fun p => fst p =? snd p) (combine a b))%bool.

Definition option_default {A} (d : A) (o : option A) : A := match o with Some a => a | None => d end.

(* sort + dedup of an index list (Vec::sort; Vec::dedup) *)
Fixpoint insert_sorted (x : N) (l : list N) : list N :=
  match l with
  | [] => [x]
  | y :: r => if x <? y then x :: l else if x =? y then l else y :: insert_sorted x r
  end.
Definition sort_dedup (l : list N) : list N := fold_right insert_sorted [] l.

Definition memN (x : N) (l : list N) : bool := existsb (N.eqb x) l.
(* get_remaining_indexes(length, indexes) *)
Definition remaining (n : nat) (idx : list N) : list N :=
  filter (fun i => negb (memN i idx)) (map N.of_nat (seq 0 n)).
